// Package c01: a header is accepted only with a protocol-sized quorum of valid precommits and a
// proposer credential valid under the protocol's proposer threshold.
// Oracle: construction-time ground truth of the forge (necessary condition for acceptance).
package c01

import (
	"fmt"
	"math/big"
	"math/rand"
	"sort"
	"strings"

	"verif/env"
	"verif/forge"
	"verif/kit"

	"github.com/youchainhq/go-youchain/common"
	"github.com/youchainhq/go-youchain/consensus/ucon"
	"github.com/youchainhq/go-youchain/core/rawdb"
	"github.com/youchainhq/go-youchain/core/state"
	"github.com/youchainhq/go-youchain/core/types"
	"github.com/youchainhq/go-youchain/params"
	"github.com/youchainhq/go-youchain/youdb"
)

func init() { kit.Register("C01.forge", run) }

const (
	stepProposal  = uint32(ucon.UConStepProposal)
	stepPrecommit = uint32(ucon.Precommit)
	stepPrevote   = uint32(ucon.Prevote)
	stepCert      = uint32(ucon.Certificate)
)

func certQuorumOf(T uint64) uint64 {
	f := uint64(float64(T) * 0.585)
	e := new(big.Int).Div(new(big.Int).Mul(new(big.Int).SetUint64(T), big.NewInt(585)), big.NewInt(1000)).Uint64()
	if e < f {
		return e
	}
	return f
}

// stubChain is the minimal ChainReader the header verifier needs.
type stubChain struct {
	headers map[uint64]*types.Header
	set     *forge.Set
	set2    *forge.Set // the validator set as of OTHER heights (seed look-back header, parent)
	yp      *params.YouParams
}

func (c *stubChain) VersionForRound(uint64) (*params.YouParams, error) { return c.yp, nil }
func (c *stubChain) VersionForRoundWithParents(uint64, []*types.Header) (*params.YouParams, error) {
	return c.yp, nil
}
func (c *stubChain) CurrentHeader() *types.Header { return nil }
func (c *stubChain) GetHeader(h common.Hash, n uint64) *types.Header {
	if x := c.headers[n]; x != nil && x.Hash() == h {
		return x
	}
	return nil
}
func (c *stubChain) GetHeaderByNumber(n uint64) *types.Header { return c.headers[n] }
func (c *stubChain) GetHeaderByHash(h common.Hash) *types.Header {
	for _, x := range c.headers {
		if x.Hash() == h {
			return x
		}
	}
	return nil
}
func (c *stubChain) GetBlock(common.Hash, uint64) *types.Block { return nil }
func (c *stubChain) GetBlockByNumber(uint64) *types.Block      { return nil }
func (c *stubChain) GetVldReader(root common.Hash) (state.ValidatorReader, error) {
	if c.set2 != nil && root == c.set2.ValRoot && root != c.set.ValRoot {
		return state.NewVldReader(root, c.set2.DB, false)
	}
	return state.NewVldReader(root, c.set.DB, false)
}
func (c *stubChain) GetAcReader() rawdb.AcReader        { return nil }
func (c *stubChain) UpdateExistedHeader(*types.Header) {}

type entry struct {
	v     *forge.Vote
	valid bool   // structurally valid for THIS header by ground truth
	jTrue uint32 // seats of the signer under the PROTOCOL validator threshold for the container's (seed, index, precommit)
	why   string
}

type variant struct {
	certEntries []entry
	certLB      *types.Header // certificate look-back header (possibly with an author-chosen CertValThreshold)
	ops        []string
	header     *types.Header
	entries    []entry
	proposerOK bool
	garbage    bool
}

func quorumOf(T uint64) uint64 {
	f := uint64(float64(T) * 0.685)
	e := new(big.Int).Div(new(big.Int).Mul(new(big.Int).SetUint64(T), big.NewInt(685)), big.NewInt(1000)).Uint64()
	if e < f {
		return e
	}
	return f
}

type world struct {
	cert     bool // certificate round (number % 32768 == 0): certificate votes are verified too
	number   uint64
	certSeed common.Hash
	r      *rand.Rand
	set    *forge.Set
	set2   *forge.Set // same keys, the records as of the seed look-back header and the parent: other status/stake, one more member
	canon    *types.Header // an honest header that was accepted: stored as the canonical header of its height for the "re-presented" operator
	hnX      [2]*honest // an honest header's ingredients under set2 / on the other seed
	hnXTried [2]bool
	yp     *params.YouParams
	chain  *stubChain
	seed   common.Hash
	parent *types.Header
	srv    *ucon.Server
}

func specsFor(r *rand.Rand, cfg int) []env.ValSpec {
	on, off := uint8(params.ValidatorOnline), uint8(params.ValidatorOffline)
	ch, se, ho := params.RoleChancellor, params.RoleSenator, params.RoleHouse
	y := env.YOU
	if cfg%12 == 10 {
		// a tiny network: the online chamber stake is BELOW the committee size (p is clamped to 1,
		// every member wins exactly its stake in seats); the quorum (68.5 % of the committee) is still
		// reachable, and every proof still has to be the member's own credential for this step
		return []env.ValSpec{{ch, on, y(600), 0}, {se, on, y(500), 1}, {se, on, y(450), 2}, {ho, on, y(900), 3}, {se, off, y(700), 0}}
	}
	switch cfg % 6 {
	case 0: // equal chamber stakes
		return []env.ValSpec{{ch, on, y(1000), 0}, {ch, on, y(1000), 1}, {se, on, y(1000), 2}, {se, on, y(1000), 3}}
	case 1: // skewed + house + offline
		return []env.ValSpec{{ch, on, y(3000), 0}, {se, on, y(800), 1}, {se, on, y(600), 2}, {ho, on, y(2500), 3}, {se, off, y(2500), 4}, {ch, on, y(500), 0}}
	case 2: // lone small validator among big ones
		return []env.ValSpec{{ch, on, y(2000), 0}, {ch, on, y(2000), 1}, {se, on, y(2000), 2}, {se, on, y(600), 3}, {ho, on, y(5000), 4}}
	case 3: // many small
		var s []env.ValSpec
		for i := 0; i < 8; i++ {
			role := se
			if i%3 == 0 {
				role = ch
			}
			s = append(s, env.ValSpec{Role: role, Status: on, Tokens: y(int64(500 + 100*i)), Operator: i % 4})
		}
		s = append(s, env.ValSpec{Role: ho, Status: on, Tokens: y(3000), Operator: 0}, env.ValSpec{Role: ch, Status: off, Tokens: y(3000), Operator: 1})
		return s
	case 4: // total stake barely above the committee size
		return []env.ValSpec{{ch, on, y(700), 0}, {se, on, y(700), 1}, {se, on, y(700), 2}, {ho, off, y(4000), 3}}
	default: // random
		n := 3 + r.Intn(5)
		var s []env.ValSpec
		for i := 0; i < n; i++ {
			s = append(s, env.ValSpec{Role: []params.ValidatorRole{ch, se, se}[r.Intn(3)], Status: on, Tokens: y(int64(600 + r.Intn(3000))), Operator: i % 4})
		}
		s = append(s, env.ValSpec{Role: ho, Status: on, Tokens: y(int64(500 + r.Intn(3000))), Operator: 0})
		s = append(s, env.ValSpec{Role: se, Status: off, Tokens: y(int64(500 + r.Intn(3000))), Operator: 1})
		return s
	}
}

func newWorld(r *rand.Rand, cfg int, cert bool) (*world, error) {
	env.Init()
	yp := params.Versions[params.YouV5]
	keys := env.Keyring{Seed: r.Int63()}
	specs := specsFor(r, cfg)
	set, err := forge.NewSet(keys, specs)
	if err != nil {
		return nil, err
	}
	// the same validators 8 and 15 blocks later: offline chamber members came online, stakes moved,
	// a House validator became a Senator, one validator joined
	specs2 := append([]env.ValSpec{}, specs...)
	for i := range specs2 {
		if specs2[i].Status != uint8(params.ValidatorOnline) {
			specs2[i].Status = uint8(params.ValidatorOnline)
		}
		if specs2[i].Role == params.RoleHouse {
			specs2[i].Role = params.RoleSenator
		}
		if i%2 == 1 {
			specs2[i].Tokens = new(big.Int).Mul(specs2[i].Tokens, big.NewInt(3))
		}
	}
	specs2 = append(specs2, env.ValSpec{Role: params.RoleSenator, Status: uint8(params.ValidatorOnline), Tokens: env.YOU(4000), Operator: 0})
	set2, err := forge.NewSet(keys, specs2)
	if err != nil {
		return nil, err
	}
	w := &world{r: r, set: set, set2: set2, yp: &yp, cert: cert, number: 100}
	if cert {
		w.number = params.ACoCHTFrequency
	}
	r.Read(w.seed[:])
	r.Read(w.certSeed[:])
	w.chain = &stubChain{headers: map[uint64]*types.Header{}, set: set, set2: set2, yp: &yp}
	// seed look-back 8, stake look-back 16; certificate look-backs 32768 / 65536 -> genesis
	n := w.number
	w.chain.headers[n-16] = forge.SeedHeader(n-16, common.Hash{1}, set.ValRoot, params.YouV5)
	// only the header at the STAKE look-back (n-16) carries the validator set that counts; the seed
	// look-back header and the parent carry the later records
	w.chain.headers[n-8] = forge.SeedHeader(n-8, w.seed, set2.ValRoot, params.YouV5)
	w.parent = forge.SeedHeader(n-1, common.Hash{2}, set2.ValRoot, params.YouV5)
	w.chain.headers[n-1] = w.parent
	if cert {
		cp := yp.CaravelParams
		w.chain.headers[0] = forge.SeedHeaderCert(0, w.certSeed, set.ValRoot, params.YouV5, cp.ProposerThreshold, cp.ValidatorThreshold, cp.CertValThreshold)
	}
	srv, err := ucon.NewVRFServer(youdb.NewMemDatabase())
	if err != nil {
		return nil, err
	}
	w.srv = srv
	return w, nil
}

// honest forges an honest header: searches round indexes until some chamber member wins
// proposer seats and the precommit committee reaches the protocol quorum.
type honest struct {
	index    uint32
	proposer *forge.Member
	pcred    forge.Credential
	creds    map[int]forge.Credential // precommit credentials under the protocol threshold, per member index
}

func (w *world) findHonest() *honest { return w.findHonestIn(w.set, w.seed) }

// findHonestIn: the same search over the records of set (w.set: the look-back set that counts;
// w.set2: the records of other heights, for the "whole header as another height would justify it" operator).
func (w *world) findHonestIn(set *forge.Set, seed common.Hash) *honest {
	cp := w.yp.CaravelParams
	for index := uint32(1); index < 60; index++ {
		var best *forge.Member
		var bestCred forge.Credential
		var bestPrio common.Hash
		for _, m := range set.Members {
			if !m.Chamber || !m.Online {
				continue
			}
			c := set.Sortition(m, seed, index, stepProposal, cp.ProposerThreshold)
			if c.J >= 1 {
				p := ucon.VrfComputePriority(c.Value, c.J)
				if best == nil || strings.Compare(string(p[:]), string(bestPrio[:])) > 0 {
					best, bestCred, bestPrio = m, c, p
				}
			}
		}
		if best == nil {
			continue
		}
		h := &honest{index: index, proposer: best, pcred: bestCred, creds: map[int]forge.Credential{}}
		sum := uint64(0)
		for _, m := range set.Members {
			if !m.Chamber || !m.Online {
				continue
			}
			c := set.Sortition(m, seed, index, stepPrecommit, cp.ValidatorThreshold)
			h.creds[m.I] = c
			sum += uint64(c.J)
		}
		if sum >= quorumOf(cp.ValidatorThreshold) {
			if w.cert {
				csum := uint64(0)
				for _, m := range set.Members {
					if m.Chamber && m.Online {
						csum += uint64(set.Sortition(m, w.certSeed, index, stepCert, cp.CertValThreshold).J)
					}
				}
				if csum < certQuorumOf(cp.CertValThreshold) {
					continue
				}
			}
			return h
		}
	}
	return nil
}

// jTrue computes a member's true seat count for (seed,index,precommit) under the protocol threshold.
func (w *world) jTrue(m *forge.Member, index uint32) uint32 {
	if m.Stake == nil || m.Idx < 0 {
		return 0
	}
	return w.set.Sortition(m, w.seed, index, stepPrecommit, w.yp.CaravelParams.ValidatorThreshold).J
}

func (w *world) build(hn *honest, ops []string) *variant {
	r := w.r
	cp := w.yp.CaravelParams
	has := func(op string) bool {
		for _, o := range ops {
			if o == op {
				return true
			}
		}
		return false
	}
	v := &variant{ops: ops, proposerOK: true}
	if has("header-of-other-height-set") {
		return w.buildOtherHeight(ops, false)
	}
	if has("header-on-other-height-seed") {
		return w.buildOtherHeight(ops, true)
	}
	h := forge.HeaderTemplate(w.parent, r)
	if w.cert {
		// a certificate-round header commits to the CHT / bloom-trie roots (the light-client entry
		// VerifyAcHeader refuses headers without them)
		h.ChtRoot, h.BltRoot = make([]byte, 32), make([]byte, 32)
		r.Read(h.ChtRoot)
		r.Read(h.BltRoot)
	}
	propTh, valTh, certTh := cp.ProposerThreshold, cp.ValidatorThreshold, cp.CertValThreshold
	total := w.set.Total.Uint64()
	pick := func(base uint64) uint64 {
		c := []uint64{0, 1, 2, base - 1, base + 1, base / 2, total, total + 1, 1 << 62}
		return c[r.Intn(len(c))]
	}
	if has("author-validator-threshold") {
		valTh = pick(valTh)
	}
	if has("author-proposer-threshold") {
		propTh = pick(propTh)
	}
	// re-presented: the hashed part of a header that is ALREADY canonical at this height (it was
	// verified once), offered again with another vote container / certificate / seal - the header
	// hash does not cover those three fields
	represent := has("re-presented-canonical")
	if represent && w.canon == nil {
		return nil
	}
	// ---- proposer ----
	proposer, pcred := hn.proposer, hn.pcred
	sealKey := proposer.Key
	claimJ := pcred.J
	if propTh != cp.ProposerThreshold {
		// the author recomputes its claim under its own threshold (what a buggy verifier would check)
		if g := kit.Guard(func() { claimJ = w.set.Sortition(proposer, w.seed, hn.index, stepProposal, propTh).J }); g != nil {
			claimJ = pcred.J
		}
	}
	switch {
	case has("proposer-outsider"):
		proposer = w.set.Outsider
		proposer.Stake = big.NewInt(1000)
		pcred = w.set.Sortition(proposer, w.seed, hn.index, stepProposal, cp.ProposerThreshold)
		proposer.Stake = nil
		claimJ = pcred.J
		if claimJ == 0 {
			claimJ = 1
		}
		sealKey = proposer.Key
		v.proposerOK = false
	case has("proposer-zero-seats"):
		// a member whose credential yields zero seats under the protocol threshold
		var z *forge.Member
		var zc forge.Credential
		for _, m := range w.set.Members {
			if m.Idx < 0 {
				continue
			}
			c := w.set.Sortition(m, w.seed, hn.index, stepProposal, cp.ProposerThreshold)
			if c.J == 0 && c.Proof != nil {
				z, zc = m, c
				break
			}
		}
		if z == nil {
			return nil
		}
		proposer, pcred, claimJ, sealKey = z, zc, 0, z.Key
		v.proposerOK = false
	case has("proposer-of-other-height-set"):
		// the proposer's seats as the records of another height would give them
		var z *forge.Member
		for _, m2 := range w.set2.Members {
			if m2.Chamber && m2.Online && m2.Idx >= 0 && m2.I < len(w.set.Members) {
				c2 := w.set2.Sortition(m2, w.seed, hn.index, stepProposal, cp.ProposerThreshold)
				mm := w.set.Members[m2.I]
				var jt uint32
				if mm.Idx >= 0 && mm.Chamber && mm.Online {
					jt = w.set.Sortition(mm, w.seed, hn.index, stepProposal, cp.ProposerThreshold).J
				}
				if c2.J >= 1 && c2.J != jt {
					z, pcred = mm, c2
					break
				}
			}
		}
		if z == nil {
			return nil
		}
		proposer, claimJ, sealKey = z, pcred.J, z.Key
		v.proposerOK = false
	case has("proposer-wrong-index-credential"):
		pcred = w.set.Sortition(proposer, w.seed, hn.index+1, stepProposal, cp.ProposerThreshold)
		claimJ = pcred.J
		v.proposerOK = false
	case has("proposer-inflated-seats"):
		claimJ = pcred.J + 1 + uint32(r.Intn(3))
		v.proposerOK = false
	}
	prio := ucon.VrfComputePriority(pcred.Value, claimJ)
	if has("proposer-wrong-priority") {
		prio[r.Intn(32)] ^= 1 << uint(r.Intn(8))
		v.proposerOK = false
	}
	// the credential is only valid under the PROTOCOL proposer threshold if j_true >= 1 and the claim equals j_true
	if v.proposerOK && (pcred.J < 1 || claimJ != pcred.J) {
		v.proposerOK = false
	}
	var newSeed common.Hash
	r.Read(newSeed[:])
	consKey := proposer.Key
	if represent {
		h = types.CopyHeader(w.canon)
		h.Validator, h.Signature, h.Certificate = nil, nil, nil
		valTh = cp.ValidatorThreshold
		proposer, sealKey = hn.proposer, hn.proposer.Key
		v.proposerOK = true
	} else if _, err := forge.Propose(h, proposer, pcred, hn.index, newSeed, propTh, valTh, certTh, claimJ, prio, consKey); err != nil {
		return nil
	}
	hash := h.Hash()
	if represent && hash != w.canon.Hash() {
		return nil
	}
	round := h.Number
	// ---- votes ----
	cidx := hn.index
	if has("container-index-differs") {
		cidx = hn.index + 1 + uint32(r.Intn(3))
	}
	mk := func(m *forge.Member, signHash common.Hash, signIdx uint32, credIdx uint32, credStep uint32) entry {
		th := valTh
		var c forge.Credential
		st := m.Stake
		if st == nil {
			m.Stake = big.NewInt(1000)
		}
		if g := kit.Guard(func() { c = w.set.Sortition(m, w.seed, credIdx, credStep, th) }); g != nil {
			c = w.set.Sortition(m, w.seed, credIdx, credStep, cp.ValidatorThreshold)
		}
		m.Stake = st
		vt := forge.SignVote(m, c, signHash, round, signIdx, credStep, w.seed)
		e := entry{v: vt}
		e.valid = m.Idx >= 0 && m.Chamber && m.Online && signHash == hash && signIdx == cidx && credIdx == cidx && credStep == stepPrecommit
		if e.valid {
			e.jTrue = w.jTrue(m, cidx)
			if e.jTrue == 0 {
				e.valid = false
				e.why = "zero seats under the protocol threshold"
			}
		}
		return e
	}
	var es []entry
	for _, m := range w.set.Members {
		if !m.Chamber || !m.Online {
			continue
		}
		e := mk(m, hash, cidx, cidx, stepPrecommit)
		if e.v.SV.Votes == 0 && valTh == cp.ValidatorThreshold {
			continue // not selected: an honest member does not vote
		}
		es = append(es, e)
	}
	sumTrue := func(x []entry) uint64 {
		seen := map[int]bool{}
		s := uint64(0)
		for _, e := range x {
			if e.valid && !seen[e.v.Signer.I] {
				seen[e.v.Signer.I] = true
				s += uint64(e.jTrue)
			}
		}
		return s
	}
	q := quorumOf(cp.ValidatorThreshold)
	if has("drop-below-quorum") || has("duplicate-votes") || has("house-voter") || has("offline-voter") || has("outsider-voter") ||
		has("replayed-other-block") || has("wrong-index-votes") || has("wrong-step-credential") || has("inflated-votes") || has("few-votes") ||
		has("voter-of-other-height-set") || has("credential-of-other-height-seed") {
		// keep a strict subset whose true weight is below the protocol quorum
		r.Shuffle(len(es), func(i, j int) { es[i], es[j] = es[j], es[i] })
		for len(es) > 0 && sumTrue(es) >= q {
			es = es[:len(es)-1]
		}
		if has("few-votes") && len(es) > 1 {
			es = es[:1]
		}
	}
	if has("exact-quorum") {
		// greedy: drop votes while staying at or above quorum (boundary on the accepting side)
		sort.Slice(es, func(i, j int) bool { return es[i].jTrue < es[j].jTrue })
		for i := 0; i < len(es); {
			rest := append(append([]entry{}, es[:i]...), es[i+1:]...)
			if sumTrue(rest) >= q {
				es = rest
			} else {
				i++
			}
		}
	}
	need := func() bool { return sumTrue(es) < q }
	if has("duplicate-votes") && len(es) > 0 {
		for k := 0; k < 4 && need(); k++ {
			d := es[r.Intn(len(es))]
			es = append(es, d)
		}
		// duplicates as re-signed entries too
		es = append(es, es[0])
	}
	addInvalid := func(make func() entry) {
		for k := 0; k < 6; k++ {
			es = append(es, make())
		}
	}
	if has("house-voter") {
		for _, m := range w.set.Members {
			if !m.Chamber && m.Idx >= 0 {
				mm := m
				addInvalid(func() entry { return mk(mm, hash, cidx, cidx, stepPrecommit) })
			}
		}
	}
	if has("offline-voter") {
		for _, m := range w.set.Members {
			if m.Chamber && !m.Online && m.Idx >= 0 {
				mm := m
				addInvalid(func() entry { return mk(mm, hash, cidx, cidx, stepPrecommit) })
			}
		}
	}
	if has("outsider-voter") {
		o := w.set.Outsider
		e := mk(o, hash, cidx, cidx, stepPrecommit)
		e.v.SV.VoterIdx = uint32(r.Intn(len(w.set.Members) + 2)) // someone else's slot or out of range
		es = append(es, e)
	}
	others := func() []*forge.Member {
		var o []*forge.Member
		inc := map[int]bool{}
		for _, e := range es {
			inc[e.v.Signer.I] = true
		}
		for _, m := range w.set.Members {
			if m.Chamber && m.Online && !inc[m.I] {
				o = append(o, m)
			}
		}
		return o
	}
	if has("replayed-other-block") {
		var oh common.Hash
		r.Read(oh[:])
		for _, m := range others() {
			es = append(es, mk(m, oh, cidx, cidx, stepPrecommit))
		}
	}
	if has("wrong-index-votes") {
		for _, m := range others() {
			es = append(es, mk(m, hash, cidx+1, cidx+1, stepPrecommit))
		}
	}
	if has("wrong-step-credential") {
		for _, m := range others() {
			es = append(es, mk(m, hash, cidx, cidx, stepPrevote))
		}
	}
	if has("voter-of-other-height-set") {
		// votes as the validator records of ANOTHER height (seed look-back header / parent) would
		// justify them: status, role, stake, total stake and list index of that set
		for _, m2 := range w.set2.Members {
			if !m2.Chamber || !m2.Online || m2.Idx < 0 {
				continue
			}
			var c forge.Credential
			if g := kit.Guard(func() { c = w.set2.Sortition(m2, w.seed, cidx, stepPrecommit, cp.ValidatorThreshold) }); g != nil || c.J == 0 {
				continue
			}
			vt := forge.SignVote(m2, c, hash, round, cidx, stepPrecommit, w.seed)
			e := entry{v: vt}
			if m2.I < len(w.set.Members) {
				mm := w.set.Members[m2.I]
				vt.Signer = mm
				// ground truth under the set that counts: member, online chamber, same list index, same seat count
				if mm.Idx >= 0 && mm.Chamber && mm.Online && mm.Idx == m2.Idx {
					if jt := w.jTrue(mm, cidx); jt >= 1 && jt == c.J {
						e.valid, e.jTrue = true, jt
					}
				}
			}
			es = append(es, e)
		}
	}
	if has("credential-of-other-height-seed") {
		// credentials drawn on the seed of another header (stake look-back header n-16, or the parent)
		os := common.Hash{1}
		if r.Intn(2) == 0 {
			os = common.Hash{2}
		}
		for _, m := range others() {
			var c forge.Credential
			if g := kit.Guard(func() { c = w.set.Sortition(m, os, cidx, stepPrecommit, cp.ValidatorThreshold) }); g != nil || c.J == 0 {
				continue
			}
			es = append(es, entry{v: forge.SignVote(m, c, hash, round, cidx, stepPrecommit, os)})
		}
	}
	if has("inflated-votes") && len(es) > 0 {
		i := r.Intn(len(es))
		cpy := *es[i].v
		switch r.Intn(3) {
		case 0:
			cpy.SV.Votes = cpy.SV.Votes*2 + 1
		case 1:
			cpy.SV.Votes = 1<<32 - 1
		default:
			cpy.SV.Votes += uint32(q)
		}
		es[i].v = &cpy
		es[i].valid = false // an inflated claim contributes nothing
	}
	// aggregate
	var vs []*forge.Vote
	for _, e := range es {
		vs = append(vs, e.v)
	}
	asig := forge.Aggregate(vs)
	switch {
	case has("aggregate-garbage"):
		asig = make([]byte, 48)
		r.Read(asig)
	case has("aggregate-empty"):
		asig = nil
	case has("aggregate-subset") && len(vs) > 1:
		asig = forge.Aggregate(vs[:len(vs)-1])
		es[len(es)-1].valid = false
	case has("aggregate-other-payload") && len(vs) > 0:
		// signatures over another payload aggregated in
		var oh common.Hash
		r.Read(oh[:])
		var alt []*forge.Vote
		for _, e := range es {
			alt = append(alt, forge.SignVote(e.v.Signer, e.v.Cred, oh, round, cidx, stepPrecommit, w.seed))
		}
		asig = forge.Aggregate(alt)
		for i := range es {
			es[i].valid = false
		}
	}
	if err := forge.AttachVotes(h, cidx, vs, asig); err != nil {
		return nil
	}
	if w.cert {
		if !w.buildCert(v, h, hash, cidx, has) {
			return nil
		}
	}
	if has("garbage-validator-bytes") {
		b := make([]byte, r.Intn(200))
		r.Read(b)
		h.Validator = b
		v.garbage = true
		es = nil
	}
	if has("garbage-consensus-bytes") {
		b := make([]byte, r.Intn(120))
		r.Read(b)
		h.Consensus = b
		v.garbage = true
		v.proposerOK = false
	}
	if has("truncated-validator-bytes") && len(h.Validator) > 2 {
		h.Validator = h.Validator[:r.Intn(len(h.Validator))]
		v.garbage = true
		es = nil
	}
	if has("seal-other-key") {
		sealKey = w.set.Members[(proposer.I+1)%len(w.set.Members)].Key
	}
	if err := forge.Seal(h, sealKey); err != nil {
		return nil
	}
	v.header = h
	v.entries = es
	return v
}

// buildOtherHeight forges a header that is entirely honest with respect to the validator records of
// ANOTHER height (the ones the seed look-back header and the parent carry): proposer, seats, voters,
// list indexes and total stake of that set. Ground truth stays the set at the stake look-back.
func (w *world) buildOtherHeight(ops []string, otherSeed bool) *variant {
	if w.cert {
		return nil
	}
	// otherSeed: the right validator set, but every credential drawn on the seed of the header at the
	// STAKE look-back distance instead of the seed look-back header's
	set, seed, slot := w.set2, w.seed, 0
	if otherSeed {
		set, seed, slot = w.set, common.Hash{1}, 1
	}
	if w.hnX[slot] == nil && !w.hnXTried[slot] {
		w.hnXTried[slot] = true
		w.hnX[slot] = w.findHonestIn(set, seed)
	}
	hn := w.hnX[slot]
	if hn == nil {
		return nil
	}
	r := w.r
	cp := w.yp.CaravelParams
	v := &variant{ops: ops}
	h := forge.HeaderTemplate(w.parent, r)
	var newSeed common.Hash
	r.Read(newSeed[:])
	prio := ucon.VrfComputePriority(hn.pcred.Value, hn.pcred.J)
	if _, err := forge.Propose(h, hn.proposer, hn.pcred, hn.index, newSeed, cp.ProposerThreshold, cp.ValidatorThreshold, cp.CertValThreshold, hn.pcred.J, prio, hn.proposer.Key); err != nil {
		return nil
	}
	// ground truth: the set at the stake look-back and the seed of the seed look-back header
	if !otherSeed && hn.proposer.I < len(w.set.Members) {
		mm := w.set.Members[hn.proposer.I]
		if mm.Idx >= 0 && mm.Chamber && mm.Online {
			jt := w.set.Sortition(mm, w.seed, hn.index, stepProposal, cp.ProposerThreshold).J
			v.proposerOK = jt >= 1 && jt == hn.pcred.J
		}
	}
	hash := h.Hash()
	var es []entry
	var vs []*forge.Vote
	for _, m2 := range set.Members {
		if !m2.Chamber || !m2.Online || m2.Idx < 0 {
			continue
		}
		c := hn.creds[m2.I]
		if c.J == 0 {
			continue
		}
		vt := forge.SignVote(m2, c, hash, h.Number, hn.index, stepPrecommit, seed)
		e := entry{v: vt}
		if !otherSeed && m2.I < len(w.set.Members) {
			mm := w.set.Members[m2.I]
			vt.Signer = mm
			if mm.Idx >= 0 && mm.Chamber && mm.Online && mm.Idx == m2.Idx {
				if jt := w.jTrue(mm, hn.index); jt >= 1 && jt == c.J {
					e.valid, e.jTrue = true, jt
				}
			}
		}
		es = append(es, e)
		vs = append(vs, vt)
	}
	if err := forge.AttachVotes(h, hn.index, vs, forge.Aggregate(vs)); err != nil {
		return nil
	}
	if err := forge.Seal(h, hn.proposer.Key); err != nil {
		return nil
	}
	v.header, v.entries = h, es
	return v
}

// buildCert forges the certificate-vote container of a certificate round.
func (w *world) buildCert(v *variant, h *types.Header, hash common.Hash, cidx uint32, has func(string) bool) bool {
	r := w.r
	cp := w.yp.CaravelParams
	certTh := cp.CertValThreshold
	v.certLB = w.chain.headers[0]
	if has("cert-lookback-threshold-author") {
		// the look-back header's (past) proposer declared its own certificate committee size
		certTh = []uint64{1, 2, 100, cp.CertValThreshold / 2}[r.Intn(4)]
		v.certLB = forge.SeedHeaderCert(0, w.certSeed, w.set.ValRoot, params.YouV5, cp.ProposerThreshold, cp.ValidatorThreshold, certTh)
	}
	round := h.Number
	mk := func(m *forge.Member, signHash common.Hash, seed common.Hash, step uint32) entry {
		var c forge.Credential
		if g := kit.Guard(func() { c = w.set.Sortition(m, seed, cidx, step, certTh) }); g != nil {
			c = w.set.Sortition(m, seed, cidx, step, cp.CertValThreshold)
		}
		vt := forge.SignVote(m, c, signHash, round, cidx, step, seed)
		e := entry{v: vt}
		e.valid = m.Idx >= 0 && m.Chamber && m.Online && signHash == hash && seed == w.certSeed && step == stepCert
		if e.valid {
			e.jTrue = w.set.Sortition(m, w.certSeed, cidx, stepCert, cp.CertValThreshold).J
			if e.jTrue == 0 {
				e.valid = false
			}
		}
		return e
	}
	var es []entry
	for _, m := range w.set.Members {
		if !m.Chamber || !m.Online {
			continue
		}
		e := mk(m, hash, w.certSeed, stepCert)
		if e.v.SV.Votes == 0 {
			continue
		}
		es = append(es, e)
	}
	sum := func(x []entry) uint64 {
		seen := map[int]bool{}
		s := uint64(0)
		for _, e := range x {
			if e.valid && !seen[e.v.Signer.I] {
				seen[e.v.Signer.I] = true
				s += uint64(e.jTrue)
			}
		}
		return s
	}
	q := certQuorumOf(cp.CertValThreshold)
	if has("cert-drop-below-quorum") || has("cert-duplicate") || has("cert-wrong-step") || has("cert-precommit-credentials") || has("cert-lookback-threshold-author") || has("cert-other-block") {
		r.Shuffle(len(es), func(i, j int) { es[i], es[j] = es[j], es[i] })
		for len(es) > 0 && sum(es) >= q {
			es = es[:len(es)-1]
		}
		if has("cert-lookback-threshold-author") && len(es) > 1 {
			es = es[:1]
		}
	}
	missing := map[int]bool{}
	for _, m := range w.set.Members {
		missing[m.I] = m.Chamber && m.Online
	}
	for _, e := range es {
		missing[e.v.Signer.I] = false
	}
	if has("cert-duplicate") && len(es) > 0 {
		for k := 0; k < 5; k++ {
			es = append(es, es[r.Intn(len(es))])
		}
	}
	for _, m := range w.set.Members {
		if !missing[m.I] {
			continue
		}
		switch {
		case has("cert-wrong-step"):
			es = append(es, mk(m, hash, w.certSeed, stepPrecommit))
		case has("cert-precommit-credentials"):
			es = append(es, mk(m, hash, w.seed, stepPrecommit))
		case has("cert-other-block"):
			var oh common.Hash
			r.Read(oh[:])
			es = append(es, mk(m, oh, w.certSeed, stepCert))
		}
	}
	var vs []*forge.Vote
	for _, e := range es {
		vs = append(vs, e.v)
	}
	uc := &ucon.UconValidators{RoundIndex: cidx, CCAggrSig: forge.Aggregate(vs)}
	if has("cert-aggregate-empty") {
		uc.CCAggrSig = nil
	}
	for _, x := range vs {
		uc.ChamberCerts = append(uc.ChamberCerts, x.SV)
	}
	b, err := uc.ValidatorsToByte()
	if err != nil {
		return false
	}
	h.Certificate = b
	if has("cert-missing") {
		h.Certificate = nil
		es = nil
	}
	if has("cert-garbage") {
		g := make([]byte, r.Intn(100))
		r.Read(g)
		h.Certificate = g
		es = nil
	}
	v.certEntries = es
	return true
}

var certSingles = []string{"cert-aggregate-empty", "cert-drop-below-quorum", "cert-duplicate", "cert-wrong-step", "cert-precommit-credentials", "cert-other-block", "cert-lookback-threshold-author", "cert-missing", "cert-garbage"}

var singles = []string{
	"drop-below-quorum", "few-votes", "exact-quorum", "duplicate-votes", "house-voter", "offline-voter", "outsider-voter",
	"replayed-other-block", "wrong-index-votes", "wrong-step-credential", "inflated-votes", "container-index-differs",
	"voter-of-other-height-set", "credential-of-other-height-seed", "proposer-of-other-height-set", "header-of-other-height-set", "header-on-other-height-seed",
	"author-validator-threshold", "author-proposer-threshold",
	"aggregate-garbage", "aggregate-empty", "aggregate-subset", "aggregate-other-payload",
	"proposer-outsider", "proposer-zero-seats", "proposer-wrong-index-credential", "proposer-inflated-seats", "proposer-wrong-priority",
	"garbage-validator-bytes", "garbage-consensus-bytes", "truncated-validator-bytes", "seal-other-key",
}

var combos = [][]string{
	{"author-validator-threshold", "few-votes"},
	{"author-validator-threshold", "drop-below-quorum"},
	{"author-validator-threshold", "house-voter"},
	{"author-validator-threshold", "author-proposer-threshold", "few-votes"},
	{"author-proposer-threshold", "proposer-zero-seats"},
	{"duplicate-votes", "house-voter"},
	{"container-index-differs", "drop-below-quorum"},
	{"offline-voter", "house-voter", "few-votes"},
}

// crosses: the aggregated signature is the only thing that binds the (block-independent) sortition
// credentials to THIS block, so every way of spoiling the aggregate is crossed with every way of
// adding votes that were not given for this block/index/step.
// operators that only touch the vote container (usable on a re-presented canonical header)
var voteOps = []string{"drop-below-quorum", "few-votes", "duplicate-votes", "house-voter", "offline-voter", "outsider-voter", "replayed-other-block",
	"wrong-index-votes", "wrong-step-credential", "inflated-votes", "voter-of-other-height-set", "credential-of-other-height-seed", "aggregate-garbage", "aggregate-subset", "garbage-validator-bytes"}

var aggOps = []string{"aggregate-empty", "aggregate-garbage", "aggregate-other-payload"}
var foreignOps = []string{"voter-of-other-height-set", "credential-of-other-height-seed", "replayed-other-block", "wrong-index-votes", "wrong-step-credential", "house-voter", "offline-voter", "duplicate-votes"}
var certForeignOps = []string{"cert-other-block", "cert-wrong-step", "cert-precommit-credentials", "cert-duplicate"}

func run(c *kit.Ctx) {
	nworlds := c.N(24, 480)
	perWorld := c.N(80, 120)
	for wi := 0; wi < nworlds; wi++ {
		id := fmt.Sprintf("w%d", wi)
		if !c.Mine(wi, id) {
			continue
		}
		r := c.Rand(id)
		cert := wi%3 == 2 && wi%6 != 4 // certificate rounds need a total stake that can reach the certificate quorum
		c.Begin(id, map[string]interface{}{"config": wi % 6, "certificate_round": cert})
		w, err := newWorld(r, wi, cert)
		if err != nil {
			c.EndInconclusive("world setup failed: " + err.Error())
			continue
		}
		hn := w.findHonest()
		if hn == nil {
			c.Count("worlds_without_honest_quorum", 1)
			c.EndInconclusive("no round index with honest proposer+quorum found")
			continue
		}
		for k := 0; k < perWorld; k++ {
			var ops []string
			switch {
			case k%8 == 0:
				ops = nil // honest
			case k%8 == 3:
				ops = []string{"re-presented-canonical", voteOps[r.Intn(len(voteOps))]}
				if w.cert && r.Intn(2) == 0 {
					ops = []string{"re-presented-canonical", certSingles[r.Intn(len(certSingles))]}
				}
			case k%8 < 5:
				ops = []string{singles[r.Intn(len(singles))]}
			case k%8 == 5:
				ops = combos[r.Intn(len(combos))]
			case k%8 == 6:
				ops = []string{foreignOps[r.Intn(len(foreignOps))], aggOps[r.Intn(len(aggOps))]}
			default:
				ops = []string{singles[r.Intn(len(singles))], singles[r.Intn(len(singles))]}
			}
			if w.cert && len(ops) > 0 && k%2 == 0 {
				// certificate-part tampering (alone, or on top of one precommit-part operator)
				if k%8 == 6 {
					ops = []string{certForeignOps[r.Intn(len(certForeignOps))], "cert-aggregate-empty"}
				} else if k%4 == 0 {
					ops = []string{certSingles[r.Intn(len(certSingles))]}
				} else {
					ops = append(ops[:1], certSingles[r.Intn(len(certSingles))])
				}
			}
			judge(c, w, hn, ops)
		}
		c.End("")
	}
}

func judge(c *kit.Ctx, w *world, hn *honest, ops []string) {
	var v *variant
	if g := kit.Guard(func() { v = w.build(hn, ops) }); g != nil || v == nil {
		c.Count("variants_not_constructible", 1)
		return
	}
	cp := w.yp.CaravelParams
	// oracle: necessary condition for acceptance
	seen := map[int]bool{}
	sum := uint64(0)
	for _, e := range v.entries {
		if e.valid && !seen[e.v.Signer.I] {
			seen[e.v.Signer.I] = true
			sum += uint64(e.jTrue)
		}
	}
	q := quorumOf(cp.ValidatorThreshold)
	certOK, csum, cq := true, uint64(0), uint64(0)
	if w.cert {
		cq = certQuorumOf(cp.CertValThreshold)
		cseen := map[int]bool{}
		for _, e := range v.certEntries {
			if e.valid && !cseen[e.v.Signer.I] {
				cseen[e.v.Signer.I] = true
				csum += uint64(e.jTrue)
			}
		}
		certOK = csum >= cq
		c.Count("certificate_round_headers", 1)
	}
	oracle := v.proposerOK && sum >= q && !v.garbage && certOK
	block := types.NewBlockWithHeader(v.header)
	parentBlock := types.NewBlockWithHeader(w.parent)
	opname := strings.Join(v.ops, "+")
	if opname == "" {
		opname = "honest"
	}
	calls := []struct {
		name string
		f    func() error
	}{
		{"VerifySideChainHeader", func() error {
			if w.cert {
				return w.srv.VerifySideChainHeader(&cp, w.chain.headers[w.number-8], w.set.Reader, v.certLB, w.set.Reader, block, []*types.Block{parentBlock})
			}
			return w.srv.VerifySideChainHeader(&cp, w.chain.headers[w.number-8], w.set.Reader, nil, nil, block, []*types.Block{parentBlock})
		}},
		{"VerifyHeader", func() error { return w.withCertLB(v, func() error { return w.srv.VerifyHeader(w.chain, v.header, true) }) }},
		{"VerifySeal", func() error { return w.withCertLB(v, func() error { return w.srv.VerifySeal(w.chain, v.header) }) }},
	}
	accepted := false
	if strings.Contains(opname, "re-presented-canonical") {
		w.chain.headers[w.number] = w.canon
		defer delete(w.chain.headers, w.number)
		c.Count("re_presented_canonical_headers", 1)
	}
	for _, call := range calls {
		var err error
		g := kit.Guard(func() { err = call.f() })
		c.Evals(1)
		if g != nil {
			c.Violation("verifier-panic:"+opname, fmt.Sprintf("%s panicked on a hostile header (ops %v): %v", call.name, v.ops, g), witness(w, v, sum, q))
			c.Count("panics", 1)
			continue
		}
		if err == nil {
			accepted = true
			if len(v.ops) == 0 {
				c.Count("honest_accepted_by_"+call.name, 1)
			}
			if !oracle {
				reason := fmt.Sprintf("valid vote weight under the protocol threshold = %d, protocol quorum = %d, proposer credential valid under protocol threshold = %v", sum, q, v.proposerOK)
				if w.cert {
					reason += fmt.Sprintf(", valid certificate-vote weight under the protocol certificate threshold = %d, certificate quorum = %d", csum, cq)
				}
				c.Violation("accepted-without-protocol-quorum:"+opname, fmt.Sprintf("%s accepted a header although %s (ops %v)", call.name, reason, v.ops), witness(w, v, sum, q))
			}
		}
	}
	// the light-client entry point: it accepts a certificate-round header on its certificate votes
	// alone (no proposer, no precommits), so it is judged on the certificate quorum alone - with the
	// honest look-back header only (that header is the light client's trust anchor)
	if w.cert && !strings.Contains(opname, "cert-lookback-threshold-author") {
		var err error
		g := kit.Guard(func() { err = w.srv.VerifyAcHeader(w.chain, v.header, nil) })
		c.Evals(1)
		switch {
		case g != nil:
			c.Violation("verifier-panic:"+opname, fmt.Sprintf("VerifyAcHeader panicked on a hostile header (ops %v): %v", v.ops, g), witness(w, v, sum, q))
		case err == nil && !certOK:
			c.Violation("ac-header-accepted-without-certificate-quorum:"+opname, fmt.Sprintf("VerifyAcHeader (light-client path) accepted a header although the valid certificate-vote weight under the protocol certificate threshold is %d < quorum %d (ops %v)", csum, cq, v.ops), witness(w, v, sum, q))
		case err == nil:
			c.Count("ac_headers_accepted_with_certificate_quorum", 1)
			if len(v.ops) == 0 {
				c.Count("honest_accepted_by_VerifyAcHeader", 1)
			}
		default:
			c.Count("ac_headers_rejected", 1)
		}
	}
	bucket := "below"
	if sum >= q {
		bucket = "atleast"
	}
	// boundary in terms of voter sets: a minimal quorum (exact-quorum: removing any vote falls
	// below) or a set one vote short of the quorum (drop-below-quorum: the last vote removed crossed it)
	if sum == q || sum+1 == q || ((opname == "exact-quorum" || opname == "drop-below-quorum") && len(v.entries) > 0) {
		bucket = "boundary-" + bucket
		c.Count("boundary_headers", 1)
	}
	c.Sig(fmt.Sprintf("%s acc%v %s prop%v", opname, accepted, bucket, v.proposerOK))
	if len(v.ops) == 0 && accepted && w.canon == nil {
		w.canon = v.header
	}
	if len(v.ops) == 0 {
		if accepted && w.cert {
			c.Count("honest_certificate_round_accepted", 1)
		}
		if accepted {
			c.Count("honest_accepted", 1)
		} else {
			c.Count("honest_rejected", 1)
		}
	} else if accepted {
		c.Count("hostile_accepted_with_quorum", 1)
	} else {
		c.Count("hostile_rejected", 1)
	}
	c.Count("headers", 1)
	if len(v.ops) > 0 {
		c.Sample(map[string]interface{}{"ops": v.ops, "accepted": accepted, "oracle_weight": sum, "quorum": q, "votes": len(v.entries)})
	}
}

// withCertLB runs f with the variant's certificate look-back header in place (stub chain).
func (w *world) withCertLB(v *variant, f func() error) error {
	if !w.cert || v.certLB == nil {
		return f()
	}
	old := w.chain.headers[0]
	w.chain.headers[0] = v.certLB
	defer func() { w.chain.headers[0] = old }()
	return f()
}

func witness(w *world, v *variant, sum, q uint64) map[string]interface{} {
	var ms []string
	for _, m := range w.set.Members {
		ms = append(ms, fmt.Sprintf("#%d idx%d role%d status%d stake%v", m.I, m.Idx, m.Role, m.Status, m.Stake))
	}
	var es []string
	for _, e := range v.entries {
		es = append(es, fmt.Sprintf("signer#%d voterIdx%d claims%d jTrue%d valid%v", e.v.Signer.I, e.v.SV.VoterIdx, e.v.SV.Votes, e.jTrue, e.valid))
	}
	cd, _ := ucon.ExtractConsensusData(v.header)
	var ces []string
	for _, e := range v.certEntries {
		ces = append(ces, fmt.Sprintf("signer#%d voterIdx%d claims%d jTrue%d valid%v", e.v.Signer.I, e.v.SV.VoterIdx, e.v.SV.Votes, e.jTrue, e.valid))
	}
	out := map[string]interface{}{"ops": v.ops, "members": ms, "votes": es, "certificate_round": w.cert, "certificate_votes": ces, "valid_weight": sum, "protocol_quorum": q, "total_online_chamber_stake": w.set.Total.String()}
	if cd != nil {
		out["header_thresholds"] = fmt.Sprintf("proposer=%d validator=%d cert=%d subUsers=%d", cd.ProposerThreshold, cd.ValidatorThreshold, cd.CertValThreshold, cd.SubUsers)
	}
	return out
}
