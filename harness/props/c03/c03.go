// Package c03: votes escalate and blocks commit only on a counted quorum; an equivocator
// contributes no weight; the vote set attached to a commit is a real quorum of valid signatures.
// Oracle: a reference vote-counting model fed with exactly the votes the harness delivered, in
// delivery order, evaluated at the instant of each emission (synchronous hooks).
package c03

import (
	"bytes"
	"runtime"
	"sort"
	"crypto/ecdsa"
	"crypto/sha256"
	"encoding/binary"
	"fmt"
	"math/big"
	"math/rand"
	"sync"

	"verif/env"
	"verif/forge"
	"verif/kit"

	"github.com/youchainhq/go-youchain/common"
	"github.com/youchainhq/go-youchain/consensus/ucon"
	"github.com/youchainhq/go-youchain/core/state"
	"github.com/youchainhq/go-youchain/core/types"
	"github.com/youchainhq/go-youchain/crypto"
	"github.com/youchainhq/go-youchain/event"
	"github.com/youchainhq/go-youchain/params"
	"github.com/youchainhq/go-youchain/youdb"
)

func init() {
	kit.Register("C03.count", run)
	kit.Register("C03.race", runRace)
}

type stubMgr struct {
	yp  *params.YouParams
	set *forge.Set
}

func (m *stubMgr) CurrentCaravelParams() *params.CaravelParams { return &m.yp.CaravelParams }
func (m *stubMgr) CertificateParams(*big.Int) (*params.CaravelParams, error) {
	return &m.yp.CaravelParams, nil
}
func (m *stubMgr) CurrentYouParams() *params.YouParams { return m.yp }
func (m *stubMgr) GetLookBackVldReader(*params.CaravelParams, *big.Int, params.LookBackType) (state.ValidatorReader, error) {
	return m.set.Reader, nil
}

// ---- reference model ----
type firstVote struct {
	hash common.Hash
	w    uint32
}
type tally struct {
	first map[common.Address]firstVote
	dbl   map[common.Address]bool
	count map[common.Hash]uint32
}

func newTally() *tally {
	return &tally{map[common.Address]firstVote{}, map[common.Address]bool{}, map[common.Hash]uint32{}}
}

type model struct {
	round uint64
	idx   uint32
	t     map[ucon.VoteType]*tally
	equiv int
}

func (m *model) reset(round uint64, idx uint32) {
	m.round, m.idx = round, idx
	m.t = map[ucon.VoteType]*tally{ucon.Prevote: newTally(), ucon.Precommit: newTally(), ucon.NextIndex: newTally(), ucon.Certificate: newTally()}
}

// deliver: first vote per sender counts its weight; a second, different vote removes the sender.
func (m *model) deliver(sender common.Address, vt ucon.VoteType, hash common.Hash, w uint32) {
	t := m.t[vt]
	if t.dbl[sender] {
		return
	}
	if f, ok := t.first[sender]; ok {
		if f.hash == hash || vt == ucon.NextIndex {
			return
		}
		t.dbl[sender] = true
		t.count[f.hash] -= f.w
		m.equiv++
		return
	}
	t.first[sender] = firstVote{hash, w}
	t.count[hash] += w
}

func q685(T uint64) uint32 { return uint32(float64(T) * 0.685) }
func q585(T uint64) uint32 { return uint32(float64(T) * 0.585) }

type world struct {
	r      *rand.Rand
	set    *forge.Set
	mgr    *stubMgr
	voter  *ucon.Voter
	me     *forge.Member
	blocks []common.Hash
	salt   uint64
	T      uint64
	m      model
	cert   bool
	log    []string
	c      *kit.Ctx
	bad    bool
}

func (w *world) coin(parts ...interface{}) uint64 {
	h := sha256.Sum256([]byte(fmt.Sprint(append([]interface{}{w.salt}, parts...)...)))
	return binary.BigEndian.Uint64(h[:8])
}

func (w *world) sortitionOK(addr common.Address, idx uint32, step uint32) bool {
	return w.coin("sort", addr, idx, step)%7 != 0
}

func (w *world) newVoter(db *youdb.MemDatabase) {
	mux := new(event.TypeMux)
	isValidator := func(round *big.Int, idx uint32, step uint32, lb params.LookBackType) (bool, *ucon.StepView) {
		if w.coin("sel", round, idx, step)%5 == 0 {
			return false, nil
		}
		return true, &ucon.StepView{SubUsers: 1 + uint32(w.coin("w", round, idx, step)%4), SortitionProof: []byte{1}, ValidatorType: params.KindChamber, Threshold: w.T}
	}
	maxPrio := func(round *big.Int, idx uint32) (common.Hash, common.Hash, bool) {
		b := w.blocks[w.r.Intn(len(w.blocks))]
		return crypto.Keccak256Hash(b[:]), b, true
	}
	blockInCache := func(h common.Hash, p common.Hash) *types.Block {
		if h == (common.Hash{}) {
			return nil
		}
		return types.NewBlockWithHeader(&types.Header{Number: big.NewInt(1), GasRewards: new(big.Int), Subsidy: new(big.Int), Extra: h[:]})
	}
	getStake := func(round *big.Int, addr common.Address, isProposer bool, lb params.LookBackType) (*big.Int, *big.Int, uint64, params.ValidatorKind, uint8, error) {
		return big.NewInt(1000), w.set.Total, w.T, params.KindChamber, params.ValidatorOnline, nil
	}
	count := func(round *big.Int, kind params.ValidatorKind, lb params.LookBackType) uint64 {
		return uint64(len(w.set.Members))
	}
	verifySort := func(pub *ecdsa.PublicKey, d *ucon.SortitionData, lb params.LookBackType) error {
		if !w.sortitionOK(crypto.PubkeyToAddress(*pub), d.RoundIndex, d.Step) {
			return fmt.Errorf("invalid credential")
		}
		return nil
	}
	w.voter = ucon.NewVoter(db, w.me.Key, w.me.Bls, mux, verifySort, isValidator, maxPrio, blockInCache, getStake, count, w.mgr)
	w.voter.SetLookBackMgr(w.mgr)
}

var setCache = map[int]*forge.Set{}
var setMu sync.Mutex

func getSet(i int) (*forge.Set, error) {
	setMu.Lock()
	defer setMu.Unlock()
	if s := setCache[i%4]; s != nil {
		return s, nil
	}
	var specs []env.ValSpec
	for k := 0; k < 7; k++ {
		specs = append(specs, env.ValSpec{Role: params.RoleSenator, Status: params.ValidatorOnline, Tokens: env.YOU(1000), Operator: k % 4})
	}
	s, err := forge.NewSet(env.Keyring{Seed: int64(i%4) + 77}, specs)
	if err == nil {
		setCache[i%4] = s
	}
	return s, err
}

func run(c *kit.Ctx) {
	n := c.N(640, 20000)
	for i := 0; i < n; i++ {
		id := fmt.Sprintf("s%d", i)
		if !c.Mine(i, id) {
			continue
		}
		schedule(c, id, i)
	}
}

func (w *world) violation(class, msg string) {
	w.bad = true
	w.c.Violation(class, msg, map[string]interface{}{"schedule": tail(w.log, 60), "T": w.T, "quorum": q685(w.T), "cert_quorum": q585(w.T)})
}

func schedule(c *kit.Ctx, id string, i int) {
	r := c.Rand(id)
	env.Init()
	yp := params.Versions[params.YouV5]
	c.Begin(id, nil)
	set, err := getSet(i)
	if err != nil {
		c.EndInconclusive(err.Error())
		return
	}
	w := &world{r: r, set: set, mgr: &stubMgr{yp: &yp, set: set}, me: set.Members[0], salt: r.Uint64(), T: uint64(16 + r.Intn(12)), c: c}
	// the committee sizes the voter reads from the protocol parameters are the ones the harness uses
	yp.ValidatorThreshold, yp.CertValThreshold = w.T, w.T
	for k := 0; k < 3; k++ {
		var h common.Hash
		r.Read(h[:])
		w.blocks = append(w.blocks, h)
	}
	round := uint64(100)
	w.cert = r.Intn(3) == 0
	if w.cert {
		round = params.ACoCHTFrequency
	}
	rd := new(big.Int).SetUint64(round)
	commits, boundary := 0, 0
	// the CommitEvent travels asynchronously to Server.commit, which packs its vote set later:
	// every announced event is kept and its attached set is weighed again after every later delivery
	type pendingCommit struct {
		ev    ucon.CommitEvent
		h     common.Hash
		sumAt uint32
		addrs []common.Address
	}
	var pend []*pendingCommit
	changed := 0
	recheck := func() {
		for _, p := range pend {
			sum := uint32(0)
			for _, sv := range p.ev.ChamberPrecommits {
				sum += sv.Votes
			}
			if sum != p.sumAt {
				changed++
			}
			if sum < q685(w.T) {
				w.violation("commit-vote-set-below-quorum:after-announcement", fmt.Sprintf("the vote set carried by the announced CommitEvent of %x weighed %d at the announcement and weighs %d < quorum %d by the time the (asynchronous) consumer packs it", p.h[:3], p.sumAt, sum, q685(w.T)))
				return
			}
		}
	}
	ucon.VerifOnVote = func(v *ucon.Voter, vt ucon.VoteType, msg *ucon.BlockHashWithVotes) {
		if v != w.voter {
			return
		}
		h := msg.BlockHash
		w.log = append(w.log, fmt.Sprintf("  EMIT %s(%v,%d) %x w%d   [model: prevotes %d precommits %d certs %d]", ucon.VoteTypeToString(vt), msg.Round, msg.RoundIndex, h[:3], msg.Vote.Votes,
			w.m.t[ucon.Prevote].count[h], w.m.t[ucon.Precommit].count[h], w.m.t[ucon.Certificate].count[h]))
		c.Evals(1)
		switch vt {
		case ucon.Precommit:
			got := w.m.t[ucon.Prevote].count[h]
			if got < q685(w.T) {
				w.violation("precommit-without-prevote-quorum", fmt.Sprintf("precommit for %x emitted with counted prevote weight %d < quorum %d", h[:3], got, q685(w.T)))
			} else if got == q685(w.T) {
				boundary++
			}
		case ucon.Certificate:
			got := w.m.t[ucon.Precommit].count[h]
			if got < q685(w.T) {
				w.violation("certificate-vote-without-precommit-quorum", fmt.Sprintf("certificate vote for %x emitted with counted precommit weight %d < quorum %d", h[:3], got, q685(w.T)))
			} else if got == q685(w.T) {
				boundary++
			}
		}
		if msg.Round.Uint64() == w.m.round && msg.RoundIndex == w.m.idx {
			w.m.deliver(w.me.Addr, vt, h, msg.Vote.Votes)
		}
	}
	ucon.VerifOnCommit = func(v *ucon.Voter, ev *ucon.CommitEvent) {
		if v != w.voter {
			return
		}
		commits++
		c.Evals(1)
		var h common.Hash
		copy(h[:], ev.Block.Extra())
		pc := w.m.t[ucon.Precommit].count[h]
		cc := w.m.t[ucon.Certificate].count[h]
		w.log = append(w.log, fmt.Sprintf("  COMMIT (%v,%d) %x   [model: precommits %d certs %d]", ev.Round, ev.RoundIndex, h[:3], pc, cc))
		if pc < q685(w.T) {
			w.violation("commit-without-precommit-quorum", fmt.Sprintf("commit of %x announced with counted precommit weight %d < quorum %d", h[:3], pc, q685(w.T)))
		} else if pc == q685(w.T) {
			boundary++
		}
		if w.cert && cc < q585(w.T) {
			w.violation("commit-without-certificate-quorum", fmt.Sprintf("commit of %x in a certificate round announced with counted certificate weight %d < quorum %d", h[:3], cc, q585(w.T)))
		}
		// the attached vote set: distinct non-equivocating senders, valid signatures over this block, quorum weight
		sum := uint32(0)
		payload := forge.VotePayload(h, ev.Round, ev.RoundIndex)
		for addr, sv := range ev.ChamberPrecommits {
			if w.m.t[ucon.Precommit].dbl[addr] {
				w.violation("commit-carries-equivocator-vote", fmt.Sprintf("the commit's vote set contains a precommit of %x, who voted for two blocks in this step", addr[:4]))
			}
			var mem *forge.Member
			for _, m := range w.set.Members {
				if m.Addr == addr {
					mem = m
				}
			}
			if mem == nil {
				w.violation("commit-carries-foreign-vote", fmt.Sprintf("vote set contains a vote of unknown address %x", addr[:4]))
				continue
			}
			sig, err := forge.BlsMgr.DecSignature(sv.Signature)
			pk, _ := mem.Bls.PubKey()
			if err != nil || pk.Verify(payload, sig) != nil {
				w.violation("commit-carries-invalid-signature", fmt.Sprintf("the precommit of %x in the commit's vote set is not a valid signature over this block/round/index", addr[:4]))
			}
			if f, ok := w.m.t[ucon.Precommit].first[addr]; !ok || f.hash != h || f.w != sv.Votes {
				w.violation("commit-carries-uncounted-vote", fmt.Sprintf("the commit's vote set has a precommit of %x (weight %d) that the model never counted for this block", addr[:4], sv.Votes))
			}
			sum += sv.Votes
		}
		if sum < q685(w.T) {
			w.violation("commit-vote-set-below-quorum", fmt.Sprintf("the vote set attached to the commit weighs %d < quorum %d", sum, q685(w.T)))
		}
		// pack it the way Server.commit does
		if _, err := w.voter.PackVotes(*ev, params.LookBackPos); err != nil {
			w.violation("commit-pack-votes-failed", "PackVotes on the commit event failed: "+err.Error())
		}
		pc2 := &pendingCommit{ev: *ev, h: h, sumAt: sum}
		for addr := range ev.ChamberPrecommits {
			if addr != w.me.Addr {
				pc2.addrs = append(pc2.addrs, addr)
			}
		}
		sort.Slice(pc2.addrs, func(i, j int) bool { return bytes.Compare(pc2.addrs[i][:], pc2.addrs[j][:]) < 0 })
		pend = append(pend, pc2)
	}
	defer func() { ucon.VerifOnVote, ucon.VerifOnCommit = nil, nil }()
	w.newVoter(youdb.NewMemDatabase())
	idx := uint32(1)
	steps := []uint32{ucon.UConStepPrevote, ucon.UConStepPrecommit}
	if w.cert {
		steps = append(steps, ucon.UConStepCertificate)
	}
	si := 0
	w.m.reset(round, idx)
	ctx := func() {
		w.log = append(w.log, fmt.Sprintf("ctx(%d,%d,step%d)", round, idx, steps[si]))
		w.voter.VerifUpdateContext(ucon.ContextChangeEvent{Round: rd, RoundIndex: idx, Step: steps[si], Certificate: w.cert})
	}
	ctx()
	others := set.Members[1:]
	type sigRec struct {
		hash common.Hash
		idx  uint32
	}
	lastSig := map[int]sigRec{} // BLS signing is deterministic: signing the same payload again reproduces the earlier signature bytes
	nev := 20 + r.Intn(50)
	adv := 10
	if i%5 == 4 {
		// long lives: the voter keeps params.MaxVoteCacheCount (4) vote wrappers and recycles the oldest
		// for a new (round, index); only a schedule with many more contexts than that reuses wrappers
		// (the same favourite block keeps collecting votes of every kind in every index)
		nev = 150 + r.Intn(150)
		adv = 25
	}
	ctxs := 1
	kinds := map[string]int{}
	for e := 0; e < nev && !w.bad; e++ {
		if x := r.Intn(100); x < adv {
			if si+1 < len(steps) {
				si++
			} else {
				idx++
				si = 0
				ctxs++
				w.m.reset(round, idx)
			}
			ctx()
			continue
		}
		m := others[r.Intn(len(others))]
		vt := []ucon.VoteType{ucon.Prevote, ucon.Prevote, ucon.Prevote, ucon.Precommit, ucon.Precommit, ucon.Precommit, ucon.NextIndex, ucon.Certificate, ucon.Certificate}[r.Intn(9)]
		if vt == ucon.Certificate && !w.cert {
			vt = ucon.Precommit
		}
		// most votes go to one favourite block so that quorums form; the rest scatter
		b := w.blocks[0]
		if r.Intn(4) == 0 {
			b = w.blocks[r.Intn(len(w.blocks))]
		}
		weight := uint32(1 + r.Intn(5))
		lateEquiv := false
		if n := len(pend); n > 0 && pend[n-1].ev.RoundIndex == idx && len(pend[n-1].addrs) > 0 && r.Intn(2) == 0 {
			// a member whose precommit is part of the announced commit now precommits another block
			// (between the announcement and the moment Server.commit packs the event)
			p := pend[n-1]
			a := p.addrs[r.Intn(len(p.addrs))]
			for _, o := range others {
				if o.Addr == a {
					m = o
				}
			}
			vt = ucon.Precommit
			b = w.blocks[1]
			if b == p.h {
				b = w.blocks[2]
			}
			lateEquiv = true
		}
		signIdx, signRound, sender, signHash := idx, rd, m.Addr, b
		kind := "valid"
		status := ucon.VerifMsgSame
		sw := r.Intn(14)
		if lateEquiv {
			sw = 13
			kinds["late-equivocation-of-commit-member"]++
		}
		switch sw {
		case 0:
			kind = "bad-signature"
			signHash = crypto.Keccak256Hash(b[:])
		case 1:
			kind = "wrong-sender"
			sender = others[(r.Intn(len(others)-1)+1+m.I)%len(others)].Addr
			if sender == m.Addr {
				kind = "valid"
			}
		case 2:
			kind = "stale-index"
			signIdx = idx + 1
			if r.Intn(2) == 0 {
				status = ucon.VerifMsgFuture // what the message handler passes for it; otherwise "same" (its context can lag the voter's)
			}
		case 3:
			kind = "stale-round"
			signRound = new(big.Int).SetUint64(round + 1)
			if r.Intn(2) == 0 {
				status = ucon.VerifMsgFuture
			}
		case 6:
			// a well-formed late vote of the PREVIOUS round index (the handler passes msgOldRoundIndex;
			// old precommits may complete an existing header, they must never count for this index)
			if idx >= 2 {
				kind = "old-index"
				signIdx = idx - 1
				status = ucon.VerifMsgOldRoundIndex
				if r.Intn(2) == 0 {
					vt = ucon.Precommit
				}
			}
		case 7:
			kind = "old-round"
			signRound = new(big.Int).SetUint64(round - 1)
			status = ucon.VerifMsgOldRound
			if r.Intn(2) == 0 {
				vt = ucon.Precommit
			}
		case 4, 5:
			// a member re-uses a signature of its own that was already verified (an earlier vote of
			// this round index for ANOTHER block) on a vote for b
			if ls, ok := lastSig[m.I]; ok && ls.idx == idx && ls.hash != b {
				kind = "replayed-own-signature"
				signHash = ls.hash
			}
		}
		sig := m.Bls.Sign(forge.VotePayload(signHash, signRound, signIdx))
		if kind == "valid" {
			lastSig[m.I] = sigRec{hash: b, idx: idx}
		}
		data := &ucon.BlockHashWithVotes{Priority: crypto.Keccak256Hash(b[:]), BlockHash: b, Round: signRound, RoundIndex: signIdx,
			Vote: &ucon.SingleVote{VoterIdx: uint32(m.Idx), Votes: weight, Signature: sig.Compress().Bytes(), Proof: []byte{9}}}
		if kind == "stale-index" || kind == "stale-round" {
			// the message itself claims another context
		}
		valid := kind == "valid" && w.sortitionOK(m.Addr, idx, uint32(vt))
		if kind == "valid" && !valid {
			kind = "invalid-credential"
		}
		kinds[kind]++
		w.log = append(w.log, fmt.Sprintf("recv %s(%d,%d) %x w%d from #%d [%s]", ucon.VoteTypeToString(vt), signRound, signIdx, b[:3], weight, m.I, kind))
		// the model counts the vote BEFORE the implementation processes it (escalations fire inside the call)
		if valid {
			w.m.deliver(m.Addr, vt, b, weight)
		}
		w.voter.VerifProcessVoteStatus(sender, data, vt, status)
		recheck()
	}
	for _, p := range pend {
		if w.bad {
			break
		}
		if _, err := w.voter.PackVotes(p.ev, params.LookBackPos); err != nil {
			w.violation("commit-pack-votes-failed", "PackVotes on the commit event failed at the end of the schedule: "+err.Error())
		}
	}
	c.Count("commit_events_reweighed_later", len(pend))
	c.Count("commit_set_changed_after_announcement", changed)
	c.Count("commits", commits)
	c.Count("equivocations", w.m.equiv)
	c.Count("boundary_emissions", boundary)
	c.Count("deliveries", nev)
	if ctxs > 4 {
		c.Count("schedules_recycling_vote_wrappers", 1)
		c.Count("contexts_beyond_the_wrapper_cache", ctxs-4)
		if w.cert {
			c.Count("cert_round_schedules_recycling_vote_wrappers", 1)
		}
	}
	for k, n := range kinds {
		c.Count("delivered_"+k, n)
	}
	if w.cert {
		c.Count("cert_round_schedules", 1)
		if commits > 0 {
			c.Count("cert_round_commits", commits)
		}
	}
	c.Sample(map[string]interface{}{"T": w.T, "schedule": tail(w.log, 20)})
	c.End(fmt.Sprintf("T%d cert%v commits%d equiv%v boundary%v", w.T, w.cert, commits, w.m.equiv > 0, boundary > 0))
}

func tail(s []string, n int) []string {
	if len(s) > n {
		return s[len(s)-n:]
	}
	return s
}

// runRace: the production concurrency (message-handler goroutines vs the voter's event loop,
// both under the voter's lock): several goroutines deliver votes while the context changes.
func runRace(c *kit.Ctx) {
	n := c.N(40, 800)
	for i := 0; i < n; i++ {
		id := fmt.Sprintf("r%d", i)
		if !c.Mine(i, id) {
			continue
		}
		r := c.Rand(id)
		env.Init()
		yp := params.Versions[params.YouV5]
		c.Begin(id, nil)
		set, err := getSet(i)
		if err != nil {
			c.EndInconclusive(err.Error())
			continue
		}
		w := &world{r: rand.New(rand.NewSource(r.Int63())), set: set, mgr: &stubMgr{yp: &yp, set: set}, me: set.Members[0], salt: r.Uint64(), T: 20, c: c}
		yp.ValidatorThreshold, yp.CertValThreshold = 20, 20
		for k := 0; k < 3; k++ {
			var h common.Hash
			r.Read(h[:])
			w.blocks = append(w.blocks, h)
		}
		var mu sync.Mutex
		emitted, packed := 0, 0
		ucon.VerifOnVote = func(v *ucon.Voter, vt ucon.VoteType, msg *ucon.BlockHashWithVotes) {
			mu.Lock()
			emitted++
			mu.Unlock()
		}
		var wg sync.WaitGroup
		ucon.VerifOnCommit = func(v *ucon.Voter, ev *ucon.CommitEvent) {
			mu.Lock()
			emitted++
			packed++
			mu.Unlock()
			// Server.commit packs the event on another goroutine while the voter keeps counting
			e2 := *ev
			wg.Add(1)
			go func() {
				defer wg.Done()
				for k := 0; k < 20; k++ {
					v.PackVotes(e2, params.LookBackPos)
					runtime.Gosched()
				}
			}()
		}
		// maxPrio uses w.r: give it its own lock-free source per call site
		w.newVoter(youdb.NewMemDatabase())
		rd := big.NewInt(100)
		w.voter.VerifUpdateContext(ucon.ContextChangeEvent{Round: rd, RoundIndex: 1, Step: ucon.UConStepPrevote})
		for g := 0; g < 4; g++ {
			wg.Add(1)
			gr := rand.New(rand.NewSource(r.Int63()))
			go func() {
				defer wg.Done()
				for k := 0; k < 25; k++ {
					m := set.Members[1+gr.Intn(len(set.Members)-1)]
					vt := []ucon.VoteType{ucon.Prevote, ucon.Precommit, ucon.NextIndex}[gr.Intn(3)]
					// mostly one block in one index with heavy weights, so that quorums (and commits) form
					// while other goroutines keep delivering conflicting votes
					b := w.blocks[0]
					if gr.Intn(5) == 0 {
						b = w.blocks[1]
					}
					idx := uint32(1)
					if gr.Intn(6) == 0 {
						idx = 2
					}
					sig := m.Bls.Sign(forge.VotePayload(b, rd, idx))
					data := &ucon.BlockHashWithVotes{Priority: crypto.Keccak256Hash(b[:]), BlockHash: b, Round: rd, RoundIndex: idx,
						Vote: &ucon.SingleVote{VoterIdx: uint32(m.Idx), Votes: uint32(3 + gr.Intn(5)), Signature: sig.Compress().Bytes(), Proof: []byte{9}}}
					w.voter.VerifProcessVote(m.Addr, data, vt)
				}
			}()
		}
		wg.Add(1)
		go func() {
			defer wg.Done()
			for idx := uint32(1); idx <= 2; idx++ {
				for _, st := range []uint32{ucon.UConStepPrevote, ucon.UConStepPrecommit} {
					w.voter.VerifUpdateContext(ucon.ContextChangeEvent{Round: rd, RoundIndex: idx, Step: st})
				}
			}
		}()
		wg.Wait()
		ucon.VerifOnVote, ucon.VerifOnCommit = nil, nil
		c.Evals(100)
		c.Count("concurrent_runs", 1)
		c.Count("emissions_under_concurrency", emitted)
		c.Count("commit_events_packed_concurrently", packed)
		c.End(fmt.Sprintf("emitted%d", emitted/3))
	}
}
