// Package c03 holds the workloads and monitors of property C03.
package c03
