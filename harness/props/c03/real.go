package c03

import (
	"crypto/ecdsa"
	"fmt"
	"math/big"
	"math/rand"

	"verif/env"
	"verif/forge"
	"verif/kit"

	"github.com/youchainhq/go-youchain/common"
	"github.com/youchainhq/go-youchain/consensus/ucon"
	"github.com/youchainhq/go-youchain/core/types"
	"github.com/youchainhq/go-youchain/crypto"
	secp256k1VRF "github.com/youchainhq/go-youchain/crypto/vrf/secp256k1"
	"github.com/youchainhq/go-youchain/event"
	"github.com/youchainhq/go-youchain/params"
	"github.com/youchainhq/go-youchain/youdb"
)

func init() { kit.Register("C03.real", runReal) }

// runReal: real-credential mode. Real VRF sortition weights, real BLS, the protocol's committee
// sizes; every commit the voter announces is packed the way Server.commit packs it and the
// resulting header is offered to the REAL header verifier.
func runReal(c *kit.Ctx) {
	n := c.N(96, 2400)
	for i := 0; i < n; i++ {
		id := fmt.Sprintf("real%d", i)
		if !c.Mine(i, id) {
			continue
		}
		realSchedule(c, id, i)
	}
}

type realWorld struct {
	set    *forge.Set
	seed   common.Hash
	parent *types.Header
	seedH  *types.Header
	blocks map[common.Hash]*types.Block
	srv    *ucon.Server
	yp     *params.YouParams
}

func realSchedule(c *kit.Ctx, id string, i int) {
	r := c.Rand(id)
	env.Init()
	yp := params.Versions[params.YouV5]
	cp := yp.CaravelParams
	c.Begin(id, nil)
	on := uint8(params.ValidatorOnline)
	var specs []env.ValSpec
	nm := 4 + i%3
	for k := 0; k < nm; k++ {
		specs = append(specs, env.ValSpec{Role: params.RoleSenator, Status: on, Tokens: env.YOU(int64(700 + 150*((k+i)%4))), Operator: k % 4})
	}
	set, err := forge.NewSet(env.Keyring{Seed: int64(i%16) + 500}, specs)
	if err != nil {
		c.EndInconclusive(err.Error())
		return
	}
	rw := &realWorld{set: set, yp: &yp, blocks: map[common.Hash]*types.Block{}}
	r.Read(rw.seed[:])
	rw.seedH = forge.SeedHeader(92, rw.seed, set.ValRoot, params.YouV5)
	rw.parent = forge.SeedHeader(99, common.Hash{2}, set.ValRoot, params.YouV5)
	rw.srv, _ = ucon.NewVRFServer(youdb.NewMemDatabase())
	T := cp.ValidatorThreshold
	me := set.Members[0]
	round := big.NewInt(100)
	// find a round index with an honest proposer and a reachable precommit quorum
	var idx uint32
	var proposals []*types.Block
	for idx = 1; idx < 60 && len(proposals) == 0; idx++ {
		sum := uint64(0)
		for _, m := range set.Members {
			sum += uint64(set.Sortition(m, rw.seed, idx, uint32(ucon.Precommit), T).J)
		}
		if sum < uint64(q685(T)) {
			continue
		}
		for _, m := range set.Members {
			cr := set.Sortition(m, rw.seed, idx, uint32(ucon.UConStepProposal), cp.ProposerThreshold)
			if cr.J < 1 {
				continue
			}
			h := forge.HeaderTemplate(rw.parent, r)
			var ns common.Hash
			r.Read(ns[:])
			if _, err := forge.Propose(h, m, cr, idx, ns, cp.ProposerThreshold, cp.ValidatorThreshold, cp.CertValThreshold, cr.J, ucon.VrfComputePriority(cr.Value, cr.J), m.Key); err != nil {
				continue
			}
			forge.Seal(h, m.Key)
			b := types.NewBlockWithHeader(h)
			rw.blocks[b.Hash()] = b
			proposals = append(proposals, b)
		}
	}
	idx--
	if len(proposals) == 0 {
		c.EndInconclusive("no round index with proposer and quorum")
		return
	}
	byAddr := map[common.Address]*forge.Member{}
	for _, m := range set.Members {
		byAddr[m.Addr] = m
	}
	mux := new(event.TypeMux)
	mgr := &stubMgr{yp: &yp, set: set}
	isValidator := func(rd *big.Int, ix uint32, step uint32, lb params.LookBackType) (bool, *ucon.StepView) {
		cr := set.Sortition(me, rw.seed, ix, step, T)
		if cr.J < 1 {
			return false, nil
		}
		return true, &ucon.StepView{SubUsers: cr.J, SortitionProof: cr.Proof, ValidatorType: params.KindChamber, Threshold: T}
	}
	maxPrio := func(rd *big.Int, ix uint32) (common.Hash, common.Hash, bool) {
		b := proposals[0]
		cd, _ := ucon.GetConsensusDataFromHeader(b.Header())
		return cd.Priority, b.Hash(), true
	}
	blockInCache := func(h common.Hash, p common.Hash) *types.Block { return rw.blocks[h] }
	getStake := func(rd *big.Int, addr common.Address, isProposer bool, lb params.LookBackType) (*big.Int, *big.Int, uint64, params.ValidatorKind, uint8, error) {
		m := byAddr[addr]
		if m == nil {
			return nil, nil, 0, 0, 0, fmt.Errorf("unknown validator")
		}
		return m.Stake, set.Total, T, params.KindChamber, params.ValidatorOnline, nil
	}
	count := func(rd *big.Int, kind params.ValidatorKind, lb params.LookBackType) uint64 { return uint64(len(set.Members)) }
	verifySort := func(pub *ecdsa.PublicKey, d *ucon.SortitionData, lb params.LookBackType) error {
		m := byAddr[crypto.PubkeyToAddress(*pub)]
		if m == nil {
			return fmt.Errorf("unknown")
		}
		pk, err := secp256k1VRF.NewVRFVerifier(pub)
		if err != nil {
			return err
		}
		ok, err := ucon.VrfVerifySortition(pk, rw.seed, d.RoundIndex, d.Step, d.Proof, d.Votes, T, m.Stake, set.Total)
		if err != nil || !ok {
			return fmt.Errorf("invalid credential: %v", err)
		}
		return nil
	}
	voter := ucon.NewVoter(youdb.NewMemDatabase(), me.Key, me.Bls, mux, verifySort, isValidator, maxPrio, blockInCache, getStake, count, mgr)
	voter.SetLookBackMgr(mgr)
	var m model
	m.reset(100, idx)
	var log []string
	commits, bad := 0, false
	type pendingCommit struct {
		ev ucon.CommitEvent
		n  int
	}
	var pendC []*pendingCommit
	ucon.VerifOnVote = func(v *ucon.Voter, vt ucon.VoteType, msg *ucon.BlockHashWithVotes) {
		if v != voter {
			return
		}
		h := msg.BlockHash
		log = append(log, fmt.Sprintf("  EMIT %s(%v,%d) %x w%d", ucon.VoteTypeToString(vt), msg.Round, msg.RoundIndex, h[:3], msg.Vote.Votes))
		if vt == ucon.Precommit && m.t[ucon.Prevote].count[h] < q685(T) {
			c.Violation("precommit-without-prevote-quorum", fmt.Sprintf("real-credential mode: precommit with counted prevote weight %d < %d", m.t[ucon.Prevote].count[h], q685(T)), log)
			bad = true
		}
		if msg.RoundIndex == m.idx {
			m.deliver(me.Addr, vt, h, msg.Vote.Votes)
		}
	}
	ucon.VerifOnCommit = func(v *ucon.Voter, ev *ucon.CommitEvent) {
		if v != voter {
			return
		}
		commits++
		c.Evals(1)
		h := ev.Block.Hash()
		log = append(log, fmt.Sprintf("  COMMIT (%v,%d) %x [model precommits %d]", ev.Round, ev.RoundIndex, h[:3], m.t[ucon.Precommit].count[h]))
		if m.t[ucon.Precommit].count[h] < q685(T) {
			c.Violation("commit-without-precommit-quorum", fmt.Sprintf("real-credential mode: commit with counted precommit weight %d < %d", m.t[ucon.Precommit].count[h], q685(T)), log)
			bad = true
			return
		}
		// pack the votes as Server.commit does and offer the header to the real verifier
		uc, err := voter.PackVotes(*ev, params.LookBackPos)
		if err != nil {
			c.Violation("commit-pack-votes-failed", err.Error(), log)
			bad = true
			return
		}
		vb, err := uc.ValidatorsToByte()
		if err != nil {
			c.Violation("commit-pack-votes-failed", err.Error(), log)
			bad = true
			return
		}
		hd := ev.Block.Header()
		hd.Validator = vb
		blk := ev.Block.WithSeal(hd)
		var verr error
		if g := kit.Guard(func() {
			verr = rw.srv.VerifySideChainHeader(&cp, rw.seedH, set.Reader, nil, nil, blk, []*types.Block{types.NewBlockWithHeader(rw.parent)})
		}); g != nil {
			verr = fmt.Errorf("panic: %v", g)
		}
		c.Count("commit_headers_verified", 1)
		if verr != nil {
			c.Violation("commit-header-rejected-by-verifier", fmt.Sprintf("the header assembled from the commit's vote set (%d votes) is rejected by the real header verifier: %v", len(uc.ChamberCommitters), verr), log)
			bad = true
		}
		pendC = append(pendC, &pendingCommit{ev: *ev, n: len(uc.ChamberCommitters)})
	}
	// Server.commit packs the event asynchronously: pack and verify it once more after later deliveries
	repack := func() {
		for _, p := range pendC {
			if bad {
				return
			}
			uc, err := voter.PackVotes(p.ev, params.LookBackPos)
			if err != nil {
				c.Violation("commit-pack-votes-failed", "late packing: "+err.Error(), log)
				bad = true
				return
			}
			vb, _ := uc.ValidatorsToByte()
			hd := p.ev.Block.Header()
			hd.Validator = vb
			blk := p.ev.Block.WithSeal(hd)
			var verr error
			if g := kit.Guard(func() {
				verr = rw.srv.VerifySideChainHeader(&cp, rw.seedH, set.Reader, nil, nil, blk, []*types.Block{types.NewBlockWithHeader(rw.parent)})
			}); g != nil {
				verr = fmt.Errorf("panic: %v", g)
			}
			c.Count("commit_headers_verified_after_later_deliveries", 1)
			if verr != nil {
				c.Violation("commit-header-rejected-by-verifier:packed-after-later-votes", fmt.Sprintf("the CommitEvent carried %d votes when it was announced; packed after later deliveries (as the asynchronous consumer does) it carries %d and the real header verifier rejects the header: %v", p.n, len(uc.ChamberCommitters), verr), log)
				bad = true
			}
		}
	}
	defer func() { ucon.VerifOnVote, ucon.VerifOnCommit = nil, nil }()
	steps := []uint32{ucon.UConStepPrevote, ucon.UConStepPrecommit}
	si := 0
	ctx := func() {
		log = append(log, fmt.Sprintf("ctx(100,%d,step%d)", idx, steps[si]))
		voter.VerifUpdateContext(ucon.ContextChangeEvent{Round: round, RoundIndex: idx, Step: steps[si]})
	}
	ctx()
	// every peer's honest votes for the first proposal, plus some equivocations for a second block
	type pend struct {
		m  *forge.Member
		vt ucon.VoteType
		b  *types.Block
	}
	var queue []pend
	for _, mm := range set.Members[1:] {
		for _, vt := range []ucon.VoteType{ucon.Prevote, ucon.Precommit} {
			queue = append(queue, pend{mm, vt, proposals[0]})
			if r.Intn(5) == 0 {
				other := proposals[r.Intn(len(proposals))]
				queue = append(queue, pend{mm, vt, other})
			}
		}
	}
	r.Shuffle(len(queue), func(a, b int) { queue[a], queue[b] = queue[b], queue[a] })
	equiv := 0
	for qi, p := range queue {
		if bad {
			break
		}
		if qi == len(queue)/2 && si == 0 {
			si = 1
			ctx()
		}
		cr := set.Sortition(p.m, rw.seed, idx, uint32(p.vt), T)
		if cr.J < 1 {
			continue
		}
		h := p.b.Hash()
		vote := forge.SignVote(p.m, cr, h, round, idx, uint32(p.vt), rw.seed)
		cd, _ := ucon.GetConsensusDataFromHeader(p.b.Header())
		data := &ucon.BlockHashWithVotes{Priority: cd.Priority, BlockHash: h, Round: round, RoundIndex: idx, Vote: &vote.SV}
		log = append(log, fmt.Sprintf("recv %s %x w%d from #%d", ucon.VoteTypeToString(p.vt), h[:3], cr.J, p.m.I))
		before := m.equiv
		m.deliver(p.m.Addr, p.vt, h, cr.J)
		if m.equiv > before {
			equiv++
		}
		voter.VerifProcessVote(p.m.Addr, data, p.vt)
	}
	// members of an announced commit equivocate afterwards (another block, same round/index/step)
	if len(pendC) > 0 && !bad {
		var oh common.Hash
		r.Read(oh[:])
		if len(proposals) > 1 {
			oh = proposals[1].Hash()
		}
		late := 0
		for _, mm := range set.Members[1:] {
			if _, in := pendC[0].ev.ChamberPrecommits[mm.Addr]; !in {
				continue
			}
			cr := set.Sortition(mm, rw.seed, idx, uint32(ucon.Precommit), T)
			if cr.J < 1 || oh == pendC[0].ev.Block.Hash() {
				continue
			}
			vote := forge.SignVote(mm, cr, oh, round, idx, uint32(ucon.Precommit), rw.seed)
			data := &ucon.BlockHashWithVotes{Priority: common.Hash{1}, BlockHash: oh, Round: round, RoundIndex: idx, Vote: &vote.SV}
			log = append(log, fmt.Sprintf("recv late equivocating precommit %x w%d from #%d", oh[:3], cr.J, mm.I))
			m.deliver(mm.Addr, ucon.Precommit, oh, cr.J)
			voter.VerifProcessVote(mm.Addr, data, ucon.Precommit)
			late++
			repack()
		}
		c.Count("real_late_equivocations", late)
	}
	c.Count("real_commits", commits)
	c.Count("real_equivocations", equiv)
	c.Count("real_deliveries", len(queue))
	c.Sample(map[string]interface{}{"members": nm, "schedule": tail(log, 16)})
	c.End(fmt.Sprintf("real members%d commits%d equiv%v", nm, commits, equiv > 0))
	_ = rand.Int
}
