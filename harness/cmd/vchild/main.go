// vchild runs one batch of one workload of one property against the real go-youchain code.
package main

import (
	"flag"
	"fmt"
	"os"

	"verif/kit"
	_ "verif/props"

	"github.com/youchainhq/go-youchain/logging"
)

func main() {
	prop := flag.String("w", "", "workload name")
	tier := flag.String("tier", "quick", "quick|thorough")
	seed := flag.Int64("seed", 1, "VERIF_SEED")
	batch := flag.Int("batch", 0, "batch index")
	nb := flag.Int("nb", 1, "number of batches")
	only := flag.String("only", "", "run only this case id")
	after := flag.String("after", "", "resume after this case id")
	mode := flag.String("mode", "plain", "build variant")
	out := flag.String("out", "", "JSONL output path")
	list := flag.Bool("list", false, "list workloads")
	flag.Parse()
	if *list {
		for _, n := range kit.Names() {
			fmt.Println(n)
		}
		return
	}
	r := kit.Lookup(*prop)
	if r == nil {
		fmt.Fprintln(os.Stderr, "unknown workload", *prop)
		os.Exit(3)
	}
	logging.Root().SetHandler(logging.DiscardHandler())
	c, err := kit.New(*prop, *tier, *seed, *batch, *nb, *only, *mode, *out)
	if err != nil {
		fmt.Fprintln(os.Stderr, err)
		os.Exit(3)
	}
	c.After = *after
	r(c)
	c.Close()
}
