package main

func init() {
	plans["C11"] = Plan{
		Jobs: []Job{
			{Workload: "C11.crash", Mode: "plain", QuickB: 12, ThoroughB: 16, QuickT: 1800, ThoroughT: 10800},
			{Workload: "C11.race", Mode: "race", QuickB: 3, ThoroughB: 8, QuickT: 1800, ThoroughT: 7200},
		},
		Level: "fault_enumeration",
		Rule: "Per tree: a main chain of 6-15 consensus-valid ucon blocks with transactions (forged with the genesis validators' VRF/BLS keys; the node under test verifies with the REAL ucon.Server, so ErrExistCanonical -> insertSidechain -> verifyAllSideChainBlocks -> reorg are the production paths), 1-3 forks with lengths around the tie/longer boundary, 2-4 invalid blocks (wrong state/validator/receipt/tx root, gas used, gas rewards, version, bloom - consensus-valid so only the block validator can reject them). Per tree 2 (thorough 8) import schedules: in order / side chain first / alternating branches / children before parents / whole-branch batches, with duplicates and invalid blocks interleaved. After every InsertChain: canonical index parent-linked from genesis to head with bodies, head state available, CurrentHeader not behind CurrentBlock, every tx-lookup entry (enumerated from the database) points into a canonical block, no invalid block canonical. Crash enumeration: the whole run is recorded on a CrashDB; crash points (every DB op in the thorough tier, ~12 evenly spaced per schedule in quick) are materialised, restarted with NewBlockChain, checked, then the interrupted call is re-offered and one further valid block - a child of the head the never-crashed node has after that call - is imported: it must become the head. C11.race: concurrent InsertChain callers per branch + readers under the race detector. distinct_nontrivial = distinct (main length bucket, forks, schedule shapes).",
		Explanation: "held = all structural invariants after every import and after every enumerated crash/restart/re-import on the trees of this run",
		Assumptions: []string{"crash model: process kill at DB-operation granularity on a memory database with atomic batches (torn batches / fsync reordering not modelled)", "forged blocks are honest-looking: produced by searching round indexes for a proposer and precommit quorum among the genesis validators"},
		Require:     map[string]int64{"trees": 8, "insertchain_calls": 150, "crash_points": 150, "recoveries_completed": 120, "schedules_with_forks": 10, "insertchain_errors": 10, "concurrent_import_runs": 3},
	}
}
