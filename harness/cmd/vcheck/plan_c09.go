package main

func init() {
	plans["C09"] = Plan{
		Jobs:  []Job{{Workload: "C09.hist", Mode: "plain", QuickB: 16, ThoroughB: 16}, {Workload: "C09.probe", Mode: "plain", QuickB: 1, ThoroughB: 2}},
		Level: "exploration",
		Rule: "PRNG-generated multi-transaction histories on a real StateDB (pre-populated, partly committed+reopened): per transaction a random stack (depth<=8) of nested snapshots with account ops and validator ops in the production calling patterns between them, reverts to ANY live id, then Finalise/IntermediateRoot and the next transaction. Eight family configurations (RemoveValidator, which no code of the node calls, is covered by a separate deterministic probe). At each Snapshot the full digest (live getters over the universe + roots + trie dump on a Copy) is recorded and compared after the revert. distinct_nontrivial = distinct (family config, #tx, max depth, revert-count bucket, non-top revert?) among histories with at least one revert.",
		Explanation: "held = every RevertToSnapshot of a valid id restored every observable and none panicked, on the histories of this run",
		Assumptions: []string{"StateDB.Copy + IntermediateRoot on the copy is used to obtain roots without disturbing the live journal (Copy is itself monitored by C10)", "staking records / pending relationships are not in the operation alphabet (never journaled by design, not listed by the property)"},
		Require:     map[string]int64{"reverts": 3000, "reverts_nontop": 200, "snapshots": 5000, "max_depth": 5, "removevalidator_reverts": 10},
	}
}
