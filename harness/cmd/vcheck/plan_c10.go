package main

func init() {
	plans["C10"] = Plan{
		Jobs:  []Job{{Workload: "C10.seq", Mode: "plain", QuickB: 12, ThoroughB: 12}, {Workload: "C10.order", Mode: "plain", QuickB: 4, ThoroughB: 4},
			{Workload: "C10.codegc", Mode: "plain", QuickB: 4, ThoroughB: 8},
			{Workload: "C10.race", Mode: "race", QuickB: 4, ThoroughB: 8, ThoroughT: 5400}},
		Level: "exploration",
		Rule: "C10.codegc: tiny alphabet (three contract accounts, two byte codes deployed again and again; deploy / self-destruct / commit in place + reference the roots / release the oldest referenced root before it reached disk / read an older root through the shared Database / flush + reopen through a fresh Database): every referenced root and the flushed state must yield exactly the committed code. C10.race (race detector build): after a generated prefix a Copy is taken mid-transaction / after Finalise / after IntermediateRoot / right after commit+reopen; one goroutine continues on the original (ops, IntermediateRoot, Commit) while another reads the copy through every getter, modifies and commits it; any DATA RACE report is a violation. C10.seq: PRNG-generated op sequences (accounts, validators in production calling patterns, delegations, withdraw queue, staking records) with commit+reopen points (fresh state.Database over the same disk store: live getters vs reopened getters, trie enumeration warm vs fresh, no dangling storage/code/delegation blob) and copy points (copy == original at copy time; original mutated => copy unchanged; copy mutated => original unchanged; copy committed + reopened == its live view). C10.order: a generated target content written by 3 (thorough: 6) schedules that permute commuting writes, regroup across Finalise/IntermediateRoot/Commit+reopen, overwrite and create-delete-recreate: all schedules must give the same three roots. distinct_nontrivial = distinct (commit count, copy count, validators, queue length) resp. content-size signatures.",
		Explanation: "held = no reopen/copy/independence/root disagreement on the executions of this run",
		Assumptions: []string{"the digest enumerates the live object through its exported getters over the universe of names the harness used, and the tries node by node through state.Database", "per-transaction observables (logs, refund, preimages, suicide marks) are excluded from the reopen comparison by design"},
		Require:     map[string]int64{"commits_reopened": 2000, "copies": 2000, "copies_committed": 500, "schedules": 3000, "concurrent_copy_runs": 150, "codegc_roots_released": 500, "codegc_flushes": 500},
	}
}
