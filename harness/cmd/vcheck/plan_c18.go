package main

func init() {
	plans["C18"] = Plan{
		Jobs: []Job{
			{Workload: "C18.e2e", Mode: "race", QuickB: 8, ThoroughB: 16},
		},
		Level:       "exploration",
		Rule:        "TODO",
		Explanation: "TODO",
		Assumptions: []string{},
		Require:     map[string]int64{},
	}
}
