package main

func init() {
	plans["C18"] = Plan{
		Jobs: []Job{
			{Workload: "C18.script", Mode: "plain", QuickB: 10, ThoroughB: 16, ThoroughT: 5400},
			{Workload: "C18.conc", Mode: "race", QuickB: 3, ThoroughB: 8, ThoroughT: 5400},
			{Workload: "C18.e2e", Mode: "race", QuickB: 3, ThoroughB: 16, QuickT: 900, ThoroughT: 5400},
			{Workload: "C18.fetcher", Mode: "race", ThoroughB: 8, ThoroughOnly: true, ThoroughT: 5400},
		},
		Level: "exploration",
		Rule: "C18.script: PRNG-scripted single-goroutine schedules against the real download queue (through the verif-tagged VerifQueue wrapper): header chains of 1..9000 blocks with 0..100% empty blocks, 1-6 peers with profiles honest/flaky/liar/silent/anything answering completely, with a prefix, emptily, with one corrupted body, with someone else's bodies, shifted, reversed, with extra or nil entries, twice, unrequested, late after expiry and re-assignment, or never; Schedule (also malformed: gap, wrong origin, replay, forged parent, swapped pair), Reserve, Deliver, Cancel (of a live request), Expire (all, or selectively through a logical clock), Revoke (+reconnect), Results at random points, result caches of 1..8192 slots, memory-bound throttling, per-call result caps 1..2048, lagging consumers; one case in eight runs the queue in fast-sync mode (two-part results, receipt parts always empty). Every call's (input, output) is judged by a permissive sequential task-state model (model/c18_queue.go: unscheduled|queued|pending(peer)|done|released); everything Results returns is checked model-free for ascending gap-free numbers from the origin, each header once, the scheduled header, complete, and the transaction list constructed for it (root recomputed by the harness' own MPT calculator on any difference); at quiescent points (every step for short chains) VerifPools (under q.lock) must show every scheduled unreleased header in exactly one of {task queue, one peer's request, done pool} and in the place the model says, nothing stale or foreign anywhere, resultOffset = origin+1+released; when faults stop, one honest peer (an existing one or a fresh one) must complete the range within 2*(range+peers)+8 scheduler rounds (expire, reserve, deliver, retrieve). " +
			"C18.conc (race build): 2-3 peer goroutines + header/timer goroutine + consumer goroutine (non-blocking or blocking Results + Close) on one queue; the recorded history (<=64 operations, logical timestamps) must be linearizable w.r.t. the same model (porcupine; checker timeout => inconclusive), the consumer's stream passes the same model-free checks, the pools satisfy task conservation at the quiescent end, and a fresh honest peer then completes the range in bounded rounds; any Go race report is a violation. " +
			"C18.e2e (race build): the real downloader.New/RegisterPeer/Synchronise/Deliver* in full-sync mode with scripted Peer implementations (faulty skeleton fills, faulty/slow/duplicated/never-arriving bodies, disconnects, peers with shorter chains, pre-synced local chains, faulty masters) against a recording BlockChain: every block reaching InsertChain must continue the importer's chain from the sync's origin without gap or repeat, be the source chain's header and carry its transaction list; after faults stop <=4 Synchronise calls with an honest master must import the whole chain (watchdog, or failed honest syncs while the harness measured a >300 ms scheduling stall of its own process => inconclusive). C18.fetcher (thorough): you/fetcher fed propagated/announced blocks out of order, duplicated, far ahead, siblings, from several peers; each block reaches insertChain at most once and only after its parent. " +
			"distinct_nontrivial = distinct (shape, peers, empty-block bucket, cache-covers-range?, core feature set) / (history shape) / (e2e outcome sequence) signatures.",
		Explanation: "held = on the executions of this run no Results/InsertChain stream left the order/once/matching-body rule, no call was refused by the task-state model, no quiescent pool snapshot broke task conservation, every range completed within the round bound once faults stopped, every recorded concurrent history was linearizable and the race detector stayed silent. Not a proof: schedules are sampled, not enumerated.",
		Assumptions: []string{
			"transaction roots of the generated chains are computed by the harness' own MPT calculator (model.MPTRoot, validated against types.EmptyRootHash and DeriveSha on samples at start; disagreement => inconclusive)",
			"the queue is driven through add-only verif-tagged exports (you/downloader/verif_export.go); VerifPools drains and refills the two priority queues under q.lock (same multiset)",
			"request expiry is driven by a logical clock (ExpireBodies(-1ns) = everything expired; VerifQueue.Age + ExpireBodies(1h) = selected requests expired)",
			"CancelBodies is only called for a request that is still in flight (the production fetchParts never calls it at all); the honest peer never answers with an empty list (an honest peer with the block does not)",
			"package tunables (plain vars) are set per case in C18.script/C18.conc (blockCacheItems, blockCacheMemory, maxResultsProcess) and once per process in C18.e2e (MaxHeaderFetch 24, MaxSkeletonSize 6, MaxBlockFetch 16, blockCacheItems 64, maxResultsProcess 20, maxHeadersProcess 40, RTT 400-500 ms, TTL 1.2-1.5 s)",
			"end-to-end: all peers serve one source chain (no forks); a sync's origin may lie below the importer's head (findAncestor samples every second header), re-imported blocks must then be identical; fast/light sync (receipts) is not exercised",
			"observation recorded, not judged (probe-stale-delivery): a body answer that matches nothing of the request leaves that peer flagged busy with no request in the queue; with no other peer the sync neither progresses nor times out until the peer disconnects. The liveness clause presupposes a peer that answers what it is asked, so this is reported as a note only",
		},
		Require: map[string]int64{
			"cases_long": 10, "cases_with_batch_at_default_cap_2048": 5, "feat_throttled": 500, "feat_late": 300, "feat_lacking": 200,
			"feat_revoke": 500, "feat_cancel": 200, "feat_expire": 300, "feat_expire-selective": 300, "feat_lagging-consumer": 100,
			"feat_mem-limit": 100, "feat_fresh-honest-peer": 300, "deliver_accepted_part": 300, "deliver_accepted_all": 5000,
			"deliver_unsolicited_rejected": 5000, "deliver_err_stale-delivery": 1000, "pool_snapshots": 50000,
			"released_empty_blocks": 50000, "reserve_progress_empty_blocks": 3000, "schedule_truncated": 500,
			"feat_fast-sync-mode": 100, "reserve_receipts_progress": 1000, "histories": 600, "overlapping_ops": 2000, "released_concurrently": 500, "blocking_consumer_histories": 50,
			"cancel_mode_histories": 50, "e2e_completed": 20, "e2e_blocks_imported": 1000, "e2e_peer_drops": 3,
		},
	}
}
