package main

func init() {
	plans["C14"] = Plan{
		Jobs: []Job{
			{Workload: "C14.rt", Mode: "plain", QuickB: 8, ThoroughB: 16},
			{Workload: "C14.hostile", Mode: "plain", QuickB: 16, ThoroughB: 16},
			{Workload: "C14.ucon", Mode: "plain", QuickB: 4, ThoroughB: 16},
			{Workload: "C14.staking", Mode: "plain", QuickB: 4, ThoroughB: 16},
		},
		Level: "exploration",
		Rule: "C14.rt: PRNG/reflection-generated wire-normal values of 56 wire/disk types (Header, Block, Body, Transaction, Receipt(+ForStorage), Log, Validator, ValKindStat, ValidatorsStat, ValidatorIndex, WithdrawQueue/Record, staking Record, Account, delegations, pendingRelationship, staking.Message + 8 Tx* payloads, Evidence, []Evidence, EvidenceDoubleSign(V5), EvidenceInactive, SlashData(V5), LogData, ucon Message/ConsensusCommon/BlockHashWithVotes/BlockConsensusData/UconValidators/SingleVote/VoteItem, 12 you-protocol messages (mirror structs), the bare interface{} decoder), each encoded twice (determinism), checked canonical by an independent RLP model, decoded the way the node decodes it (NewValidatorsStat(), **UconValidators, p2p.Msg.Decode transcription ...), compared by normalised deep equality + re-encoding equality + Hash(). " +
			"C14.hostile: for every type and each of 24 mutation kinds (bit flips, truncation, trailing bytes, leading-zero ints, 0x00 ints, long-form lengths for short payloads, zero-padded lengths, wrapped single bytes, claimed lengths bigger/smaller/huge up to 2^64-1, kind swaps, empty string<->empty list, dropped/duplicated/swapped/extra children, random leaves, small ints, nesting to depth 3000, random bytes, splices) the input is decoded under a TotalAlloc bound of 1024*len+1MiB with panics recovered; accepted inputs of the categories the statement lists must re-encode to the same bytes (the class names the innermost struct field that differs), post-decode accessors used by the handlers must not panic; rlp.Split/SplitList/SplitString/CountValues get the same bytes. " +
			"C14.ucon: Server.HandleMsg->MessageHandler.HandleMsg of a mining ucon.Server (StartMining wiring of judger, Proposal, Voter; timers parked) on a core.BlockChain with 6 harness-owned validators and 40 fabricated canonical blocks: all 8 message codes x signer {garbage, non-validator, chamber validator, house validator} x round class {zero, old, very old, same, future, far future, 2^64+, max64} x {honest VRF/BLS crypto, random} x payload/message mutations. " +
			"C14.staking: TxConverter.ApplyMessage with hostile Data (all 9 actions, unknown actions, payload and message mutations, extreme values) on a live MessageContext. distinct_nontrivial = distinct (type, mutation, outcome/error bucket[, difference path]) / (code, signer, round class, mutated?, outcome) / (action, mutated?, failed) signatures.",
		Explanation: "held = no round-trip difference, no panic/death, no allocation beyond the bound, no accepted-but-non-canonical input of a listed category, no undecodable message accepted or re-gossiped by the consensus handler or applied by the staking converter, on the executions of this run",
		Assumptions: []string{
			"keccak256 from golang.org/x/crypto and the independent RLP item parser/encoder in model/c14_rlptree.go are correct",
			"the you-protocol wire structs are local mirrors of you/protocol.go and msg.Decode is transcribed as rlp.NewStream(payload,size).Decode (package you/p2p cannot be linked under Go 1.23: quic-go/qtls panics at init)",
			"accept=>canonical is judged only for the categories the statement lists (header, block, transaction, consensus payload, vote container, staking message, evidence, validator record, plus the bare interface{} decoder); for other types (ValidatorIndex, receipts, logs, statistics ...) non-canonical acceptance is counted under unlisted:* but not judged",
			"trailing bytes after the first value of a p2p frame are ignored by p2p.Msg.Decode by design and are not judged",
			"C14.ucon: the 40 blocks above genesis are fabricated (written with rawdb, genesis state roots, well-formed consensus data) rather than certified; total chamber stake (20 600) exceeds every sortition threshold, so the C04 choose() p>1 panic is outside this workload (excluded_patterns)",
			"allocation is measured with runtime.MemStats.TotalAlloc deltas in single-goroutine children (C14.rt, C14.hostile)",
			"no -race/checkptr variant: /repo/crypto/sha3/xor_unaligned.go trips checkptr (pointer cast wider than the buffer) in any keccak call, unrelated to RLP; the rlp package itself uses no unsafe code and the decode workloads are single-goroutine",
			"C14.ucon re-posts the first ContextChangeEvent synchronously after StartMining (StartMining posts it asynchronously before its components subscribe; a Voter that misses it keeps a nil round while the timers are parked and panics on a current-round vote - a start-up race on a well-formed message, outside this property, reported separately)",
			"C14.ucon: message timestamps are taken relative to the wall clock because MessageHandler.HandleMsg itself compares them with time.Now(); no oracle reads the clock (150-300 ms sleeps only let asynchronous event posts drain before the re-gossip check, a late event can only hide, never create, a report)",
		},
		Require: map[string]int64{
			"max_types_covered": 56, "rt_values": 50000, "rt_equal": 40000, "rt_hash_compared": 5000,
			"hostile_inputs": 200000, "accepted": 20000, "rejected": 100000, "accepted_canonical": 20000,
			"mut_claim-huge": 5000, "mut_length-leading-zero": 5000, "mut_leading-zero-int": 5000, "mut_wrapped-single": 3000,
			"mut_empty-swap": 5000, "mut_deep-nest": 5000, "mut_truncate": 5000, "mut_trailing": 5000, "mut_leaf-small-int": 3000,
			"raw_calls": 200000, "vote_container_accepted_vote_nonnil": 500, "rlp_level_invalid_rejected": 50000,
			"ucon_msgs": 4000, "ucon_must_reject": 800, "ucon_by_validator": 1500, "ucon_by_nobody": 300, "ucon_by_outsider": 300,
			"ucon_gossiped_total": 20, "ucon_rejected": 2000,
			"stk_msgs": 10000, "stk_must_reject": 1500, "stk_succeeded": 100, "stk_failed": 5000,
		},
	}
}
