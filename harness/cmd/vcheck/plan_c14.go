package main

func init() {
	plans["C14"] = Plan{
		Jobs: []Job{
			{Workload: "C14.rt", Mode: "plain", QuickB: 8, ThoroughB: 16},
			{Workload: "C14.hostile", Mode: "plain", QuickB: 16, ThoroughB: 16},
		},
		Level:       "exploration",
		Rule:        "wip",
		Explanation: "wip",
		Assumptions: []string{},
		Require:     map[string]int64{},
	}
}
