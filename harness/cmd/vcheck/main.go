// vcheck is the orchestrator: it rebuilds the child binary from /repo's working tree, spawns
// one child process per batch, supervises them (watchdog, death detection), judges the JSONL
// they wrote, matches violations against known_findings.json, and writes evidence/<id>.json.
// It links nothing from go-youchain.
package main

import (
	"bufio"
	"encoding/json"
	"flag"
	"fmt"
	"os"
	"os/exec"
	"path/filepath"
	"regexp"
	"sort"
	"strconv"
	"strings"
	"sync"
	"time"

	"verif/kit"
)

var root = "/verif"

type finding struct {
	Status      string `json:"status"` // known | fixed
	Property    string `json:"property"`
	ID          string `json:"id"`
	ClassRegex  string `json:"class_regex"`
	Description string `json:"description"`
	Commit      string `json:"commit,omitempty"`
	re          *regexp.Regexp
}

type viol struct {
	Workload string          `json:"workload"`
	Mode     string          `json:"mode"`
	Batch    int             `json:"batch"`
	NB       int             `json:"nb"`
	Case     string          `json:"case"`
	Class    string          `json:"class"`
	Msg      string          `json:"msg"`
	Input    json.RawMessage `json:"input,omitempty"`
	Witness  json.RawMessage `json:"witness,omitempty"`
	Log      string          `json:"log_excerpt,omitempty"`
}

type replay struct {
	Property string `json:"property"`
	Tier     string `json:"tier"`
	Seed     int64  `json:"seed"`
	viol
}

type childResult struct {
	job      Job
	batch    int
	sum      *kit.Summary
	viols    []viol
	timedOut bool
	restarts int
	notes    []string
}

func env() []string {
	e := os.Environ()
	e = append(e, "GOFLAGS=-mod=mod", "GOPROXY=off", "GOSUMDB=off", "GOTOOLCHAIN=local", "CGO_ENABLED=1")
	return e
}

// altRepo is set (env VERIF_REPO) only for mutation testing of the machinery itself: the child
// is then built against that scratch worktree instead of /repo, into a separate bin/work/evidence
// area, so that /repo is not disturbed. Registered checks never set it.
var myBin = map[string]string{}
var devOnly = ""
var altRepo = ""
var altTag = ""

func childBin(mode string) string {
	if b, ok := myBin[mode]; ok {
		return b
	}
	return binName(mode)
}

func binName(mode string) string {
	dir := filepath.Join(root, "bin")
	if altRepo != "" {
		dir = filepath.Join(root, "work", "alt-"+altTag, "bin")
	}
	if mode == "plain" {
		return filepath.Join(dir, "vchild-"+devOnly)
	}
	return filepath.Join(dir, "vchild-"+devOnly+"-"+mode)
}

func altModfile() (string, error) {
	dir := filepath.Join(root, "work", "alt-"+altTag)
	os.MkdirAll(filepath.Join(dir, "bin"), 0755)
	b, err := os.ReadFile(filepath.Join(root, "harness", "go.mod"))
	if err != nil {
		return "", err
	}
	s := strings.Replace(string(b), "=> /repo", "=> "+altRepo, 1)
	mf := filepath.Join(dir, "go.mod")
	if err := os.WriteFile(mf, []byte(s), 0644); err != nil {
		return "", err
	}
	sum, _ := os.ReadFile(filepath.Join(root, "harness", "go.sum"))
	os.WriteFile(filepath.Join(dir, "go.sum"), sum, 0644)
	return mf, nil
}

func build(mode string) error {
	args := []string{"build"}
	tags := "verif"
	switch mode {
	case "race":
		// -race implies checkptr; /repo/crypto/sha3/xor_unaligned.go casts &buf[0] to a fixed-size
		// array pointer whatever len(buf) is (accesses stay in bounds), which checkptr reports as a
		// fatal "converted pointer straddles multiple allocations" on the first short keccak input.
		// That instrumentation is switched off so that the race detector itself can be used.
		args = append(args, "-race", "-gcflags=all=-d=checkptr=0")
	case "asan":
		args = append(args, "-asan")
	case "intpool":
		tags = "verif VERIFY_EVM_INTEGER_POOL"
	}
	if altRepo != "" {
		mf, err := altModfile()
		if err != nil {
			return err
		}
		args = append(args, "-modfile="+mf)
	}
	tmp := fmt.Sprintf("%s.tmp.%d", binName(mode), os.Getpid())
	target := "./cmd/vchild"
	if devOnly != "" {
		dir := filepath.Join(root, "harness", "cmd", "_dev_"+devOnly)
		os.MkdirAll(dir, 0755)
		src, _ := os.ReadFile(filepath.Join(root, "harness", "cmd", "vchild", "main.go"))
		os.WriteFile(filepath.Join(dir, "main.go"), []byte(strings.Replace(string(src), `_ "verif/props"`, `_ "verif/props/`+devOnly+`"`, 1)), 0644)
		target = "./cmd/_dev_" + devOnly
	}
	args = append(args, "-tags", tags, "-o", tmp, target)
	cmd := exec.Command("go", args...)
	cmd.Dir = filepath.Join(root, "harness")
	cmd.Env = env()
	out, err := cmd.CombinedOutput()
	if err != nil {
		os.Remove(tmp)
		return fmt.Errorf("go %s: %v\n%s", strings.Join(args, " "), err, out)
	}
	// each invocation runs the binary it built itself (private copy), and also publishes it
	myBin[mode] = tmp
	return nil
}

var crashRe = regexp.MustCompile(`(?m)^(panic: .*|fatal error: .*|runtime: .*out of memory.*|==\d+==ERROR: AddressSanitizer.*|CRIT.*|.*MUST.*BUG.*)$`)
var numRe = regexp.MustCompile(`0x[0-9a-fA-F]+|\b\d+\b`)

func classifyDeath(logPath string) (class, excerpt string, sigquit bool) {
	b, _ := os.ReadFile(logPath)
	s := string(b)
	if strings.Contains(s, "SIGQUIT: quit") {
		sigquit = true
	}
	m := crashRe.FindString(s)
	if m == "" {
		m = "exit without message"
		if len(s) > 0 {
			lines := strings.Split(strings.TrimSpace(s), "\n")
			m = "exit: " + lines[len(lines)-1]
		}
	}
	if len(m) > 300 {
		m = m[:300]
	}
	class = "crash:" + numRe.ReplaceAllString(m, "N")
	if len(s) > 6000 {
		i := strings.Index(s, m)
		if i < 0 {
			i = 0
		}
		end := i + 6000
		if end > len(s) {
			end = len(s)
		}
		s = s[i:end]
	}
	return class, s, sigquit
}

func runChild(prop string, job Job, tier string, seed int64, batch int, only string, work string) childResult {
	res := childResult{job: job, batch: batch}
	after := ""
	agg := &kit.Summary{Counters: map[string]int64{}}
	sigs := map[uint64]struct{}{}
	for attempt := 0; attempt < 6; attempt++ {
		tag := fmt.Sprintf("%s.%s.%d.%d", job.Workload, job.Mode, batch, attempt)
		out := filepath.Join(work, tag+".jsonl")
		logp := filepath.Join(work, tag+".log")
		os.Remove(out)
		args := []string{"-s", "QUIT", "-k", "20", strconv.Itoa(job.timeout(tier)), childBin(job.Mode),
			"-w", job.Workload, "-tier", tier, "-seed", strconv.FormatInt(seed, 10),
			"-batch", strconv.Itoa(batch), "-nb", strconv.Itoa(job.batches(tier)), "-mode", job.Mode, "-out", out}
		if only != "" {
			args = append(args, "-only", only)
		}
		if after != "" {
			args = append(args, "-after", after)
		}
		cmd := exec.Command("timeout", args...)
		e := env()
		e = append(e, "GOMEMLIMIT=6GiB", "GOTRACEBACK=all")
		if job.Mode == "race" {
			e = append(e, "GORACE=halt_on_error=0 history_size=3 log_path="+filepath.Join(work, tag+".race"))
		}
		if job.Mode == "asan" {
			e = append(e, "ASAN_OPTIONS=detect_leaks=0:abort_on_error=0:halt_on_error=1")
		}
		for k, v := range job.Env {
			e = append(e, k+"="+v)
		}
		cmd.Env = e
		lf, _ := os.Create(logp)
		cmd.Stdout = lf
		cmd.Stderr = lf
		err := cmd.Run()
		lf.Close()
		code := 0
		if err != nil {
			if ee, ok := err.(*exec.ExitError); ok {
				code = ee.ExitCode()
			} else {
				code = -1
			}
		}
		// parse JSONL
		var open *kit.Line
		var curInput json.RawMessage
		gotSummary := false
		f, ferr := os.Open(out)
		if ferr == nil {
			sc := bufio.NewScanner(f)
			sc.Buffer(make([]byte, 1<<20), 1<<28)
			for sc.Scan() {
				var l kit.Line
				if json.Unmarshal(sc.Bytes(), &l) != nil {
					continue
				}
				switch l.T {
				case "begin":
					ll := l
					open = &ll
					curInput = l.Input
				case "end":
					open = nil
				case "viol":
					res.viols = append(res.viols, viol{Workload: job.Workload, Mode: job.Mode, Batch: batch, NB: job.batches(tier),
						Case: l.Case, Class: l.Class, Msg: l.Msg, Input: curInput, Witness: l.Witness})
				case "note":
					res.notes = append(res.notes, l.Msg)
				case "summary":
					gotSummary = true
					s := l.Summary
					agg.Evaluations += s.Evaluations
					agg.Cases += s.Cases
					for _, x := range s.Sigs {
						sigs[x] = struct{}{}
					}
					for k, v := range s.Counters {
						if strings.HasPrefix(k, "max_") {
							if agg.Counters[k] < v {
								agg.Counters[k] = v
							}
						} else {
							agg.Counters[k] += v
						}
					}
					agg.Samples = append(agg.Samples, s.Samples...)
					agg.Inconclusive = append(agg.Inconclusive, s.Inconclusive...)
				}
			}
			f.Close()
		}
		// race reports
		if job.Mode == "race" {
			matches, _ := filepath.Glob(filepath.Join(work, tag+".race.*"))
			for _, m := range matches {
				for _, rr := range parseRaces(m) {
					res.viols = append(res.viols, viol{Workload: job.Workload, Mode: job.Mode, Batch: batch, NB: job.batches(tier),
						Case: "race", Class: rr.class, Msg: "data race reported by the Go race detector", Log: rr.text})
				}
			}
		}
		if gotSummary && code == 0 {
			break
		}
		// the child died or was killed
		class, excerpt, sigquit := classifyDeath(logp)
		if code == 124 || code == 137 || sigquit {
			res.timedOut = true
			res.notes = append(res.notes, fmt.Sprintf("watchdog fired on %s (case %v)", tag, caseOf(open)))
			break
		}
		if open == nil {
			// died outside any case (setup/teardown): report against a pseudo case
			res.viols = append(res.viols, viol{Workload: job.Workload, Mode: job.Mode, Batch: batch, NB: job.batches(tier),
				Case: "(outside-case)", Class: class, Msg: fmt.Sprintf("child exited with code %d outside any case", code), Log: excerpt})
			break
		}
		res.viols = append(res.viols, viol{Workload: job.Workload, Mode: job.Mode, Batch: batch, NB: job.batches(tier),
			Case: open.Case, Class: class, Msg: fmt.Sprintf("child process died (exit code %d) while executing this case", code),
			Input: open.Input, Log: excerpt})
		if only != "" {
			break
		}
		after = open.Case
		res.restarts++
	}
	for x := range sigs {
		agg.Sigs = append(agg.Sigs, x)
	}
	res.sum = agg
	return res
}

func caseOf(l *kit.Line) string {
	if l == nil {
		return "-"
	}
	return l.Case
}

type raceRep struct{ class, text string }

var frameRe = regexp.MustCompile(`(?m)^  ([^\s(]+)\(`)

func parseRaces(path string) []raceRep {
	b, err := os.ReadFile(path)
	if err != nil {
		return nil
	}
	var out []raceRep
	blocks := strings.Split(string(b), "WARNING: DATA RACE")
	for _, blk := range blocks[1:] {
		// first frame of each of the two accesses
		parts := strings.Split(blk, "\n\n")
		var tops []string
		for _, p := range parts {
			if strings.Contains(p, "by goroutine") || strings.Contains(p, "by main goroutine") {
				if m := frameRe.FindStringSubmatch(p); m != nil {
					tops = append(tops, m[1])
				}
			}
			if len(tops) == 2 {
				break
			}
		}
		sort.Strings(tops)
		t := blk
		if len(t) > 5000 {
			t = t[:5000]
		}
		out = append(out, raceRep{class: "race:" + strings.Join(tops, "|"), text: "WARNING: DATA RACE" + t})
	}
	return out
}

func loadFindings() []finding {
	var fs []finding
	b, err := os.ReadFile(filepath.Join(root, "known_findings.json"))
	if err != nil {
		return nil
	}
	var doc struct {
		Findings []finding `json:"findings"`
	}
	if err := json.Unmarshal(b, &doc); err != nil {
		fmt.Fprintln(os.Stderr, "known_findings.json:", err)
		return nil
	}
	for _, f := range doc.Findings {
		if f.Status != "known" {
			continue // a fixed entry suppresses nothing
		}
		re, err := regexp.Compile(f.ClassRegex)
		if err != nil {
			continue
		}
		f.re = re
		fs = append(fs, f)
	}
	return fs
}

func main() {
	tierF := flag.String("tier", "", "quick|thorough (default $VERIF_TIER or quick)")
	seedF := flag.String("seed", "", "seed (default $VERIF_SEED or 1)")
	replayF := flag.String("replay", "", "replay file")
	rootF := flag.String("root", "/verif", "verif root")
	nobuild := flag.Bool("nobuild", false, "skip rebuilding (debug only)")
	flag.Parse()
	root = *rootF
	if r := os.Getenv("VERIF_REPO"); r != "" && r != "/repo" {
		altRepo = r
		altTag = sanitize(r)
	}
	var prop string
	var rp *replay
	if *replayF != "" {
		b, err := os.ReadFile(*replayF)
		if err != nil {
			fmt.Println("INCONCLUSIVE reason=replay-file", err)
			os.Exit(2)
		}
		rp = &replay{}
		if err := json.Unmarshal(b, rp); err != nil {
			fmt.Println("INCONCLUSIVE reason=replay-file", err)
			os.Exit(2)
		}
		prop = rp.Property
	} else {
		if flag.NArg() < 1 {
			fmt.Println("usage: vcheck <property> [-tier quick|thorough]")
			os.Exit(2)
		}
		prop = flag.Arg(0)
	}
	tier := *tierF
	if tier == "" {
		tier = os.Getenv("VERIF_TIER")
	}
	if tier != "thorough" {
		tier = "quick"
	}
	seed := int64(1)
	ss := *seedF
	if ss == "" {
		ss = os.Getenv("VERIF_SEED")
	}
	if ss != "" {
		if v, err := strconv.ParseInt(ss, 10, 64); err == nil {
			seed = v
		}
	}
	if rp != nil {
		tier, seed = rp.Tier, rp.Seed
	}
	// one child binary per property (generated main importing only that property's package):
	// a compile error in another property's package cannot break this check
	devOnly = strings.ToLower(prop)
	plan, ok := plans[prop]
	if !ok {
		fmt.Println("INCONCLUSIVE property=" + prop + " reason=unknown-property")
		os.Exit(2)
	}
	start := time.Now()
	work := filepath.Join(root, "work", prop+"."+tier)
	evDir := filepath.Join(root, "evidence")
	rpDir := filepath.Join(root, "replays")
	if altRepo != "" {
		work = filepath.Join(root, "work", "alt-"+altTag, prop+"."+tier)
		evDir = filepath.Join(root, "work", "alt-"+altTag, "evidence")
		rpDir = filepath.Join(root, "work", "alt-"+altTag, "replays")
	}
	if rp != nil {
		work += ".replay"
	}
	os.RemoveAll(work)
	os.MkdirAll(work, 0755)
	os.MkdirAll(evDir, 0755)
	os.MkdirAll(filepath.Join(root, "bin"), 0755)
	os.MkdirAll(rpDir, 0755)

	jobs := plan.Jobs
	if rp != nil {
		jobs = nil
		for _, j := range plan.Jobs {
			if j.Workload == rp.Workload && j.Mode == rp.Mode {
				jobs = append(jobs, j)
			}
		}
	} else {
		var js []Job
		for _, j := range jobs {
			if j.ThoroughOnly && tier != "thorough" {
				continue
			}
			js = append(js, j)
		}
		jobs = js
	}
	// 1. rebuild children from /repo's working tree
	modes := map[string]bool{}
	for _, j := range jobs {
		modes[j.Mode] = true
	}
	if !*nobuild {
		for m := range modes {
			if err := build(m); err != nil {
				fmt.Printf("INCONCLUSIVE property=%s reason=build mode=%s\n%v\n", prop, m, err)
				os.Exit(2)
			}
		}
	}
	// 2. run
	type task struct {
		job   Job
		batch int
	}
	var tasks []task
	for _, j := range jobs {
		if rp != nil {
			tasks = append(tasks, task{j, rp.Batch})
			continue
		}
		for b := 0; b < j.batches(tier); b++ {
			tasks = append(tasks, task{j, b})
		}
	}
	results := make([]childResult, len(tasks))
	sem := make(chan struct{}, 16)
	var wg sync.WaitGroup
	for i, t := range tasks {
		wg.Add(1)
		go func(i int, t task) {
			defer wg.Done()
			sem <- struct{}{}
			defer func() { <-sem }()
			only := ""
			if rp != nil {
				only = rp.Case
				if only == "race" || only == "(outside-case)" {
					only = ""
				}
			}
			results[i] = runChild(prop, t.job, tier, seed, t.batch, only, work)
		}(i, t)
	}
	wg.Wait()

	for m, tmp := range myBin {
		os.Rename(tmp, binName(m))
	}
	// 3. judge
	findings := loadFindings()
	total := &kit.Summary{Counters: map[string]int64{}}
	sigs := map[uint64]struct{}{}
	var viols []viol
	timedOut := false
	var notes []string
	perJob := map[string]map[string]int64{}
	for _, r := range results {
		if r.sum == nil {
			continue
		}
		total.Evaluations += r.sum.Evaluations
		total.Cases += r.sum.Cases
		for _, s := range r.sum.Sigs {
			sigs[s] = struct{}{}
		}
		key := r.job.Workload + "/" + r.job.Mode
		if perJob[key] == nil {
			perJob[key] = map[string]int64{}
		}
		for k, v := range r.sum.Counters {
			if strings.HasPrefix(k, "max_") {
				if total.Counters[k] < v {
					total.Counters[k] = v
				}
				if perJob[key][k] < v {
					perJob[key][k] = v
				}
			} else {
				total.Counters[k] += v
				perJob[key][k] += v
			}
		}
		perJob[key]["evaluations"] += r.sum.Evaluations
		perJob[key]["cases"] += r.sum.Cases
		perJob[key]["child_restarts"] += int64(r.restarts)
		if len(total.Samples) < 6 && len(r.sum.Samples) > 0 {
			total.Samples = append(total.Samples, r.sum.Samples[0])
		}
		total.Inconclusive = append(total.Inconclusive, r.sum.Inconclusive...)
		viols = append(viols, r.viols...)
		if r.timedOut {
			timedOut = true
		}
		notes = append(notes, r.notes...)
	}
	// de-duplicate violations by class (keep the first witness of each class)
	byClass := map[string][]viol{}
	var classes []string
	for _, v := range viols {
		if _, ok := byClass[v.Class]; !ok {
			classes = append(classes, v.Class)
		}
		byClass[v.Class] = append(byClass[v.Class], v)
	}
	sort.Strings(classes)
	newViol := 0
	knownSeen := map[string]int{}
	var out []string
	for _, cl := range classes {
		vs := byClass[cl]
		var kf *finding
		for i := range findings {
			if findings[i].re.MatchString(cl) {
				kf = &findings[i]
				break
			}
		}
		if kf != nil {
			knownSeen[kf.ID] += len(vs)
			continue
		}
		newViol++
		v := vs[0]
		name := fmt.Sprintf("%s-%s-seed%d-%s.json", prop, tier, seed, sanitize(cl))
		path := filepath.Join(rpDir, name)
		b, _ := json.MarshalIndent(replay{Property: prop, Tier: tier, Seed: seed, viol: v}, "", " ")
		os.WriteFile(path, b, 0644)
		out = append(out, fmt.Sprintf("VIOLATION property=%s replay=%s", prop, path))
		out = append(out, fmt.Sprintf("  class=%s occurrences=%d workload=%s/%s case=%s: %s", cl, len(vs), v.Workload, v.Mode, v.Case, trunc(v.Msg, 400)))
	}
	for _, f := range findings {
		if n := knownSeen[f.ID]; n > 0 {
			// reported under the property the finding belongs to, wherever it showed up
			out = append(out, fmt.Sprintf("KNOWN-FINDING: property=%s %s [%s, observed %d times in this run]", f.Property, f.Description, f.ID, n))
		}
	}
	// non-vacuity
	var vac []string
	if rp == nil {
		for k, min := range plan.Require {
			if tier == "thorough" {
				// thorough runs at least what quick requires
			}
			if total.Counters[k] < min && !(k == "evaluations") {
				vac = append(vac, fmt.Sprintf("%s=%d<%d", k, total.Counters[k], min))
			}
		}
		if total.Evaluations == 0 {
			vac = append(vac, "evaluations=0")
		}
	}
	sort.Strings(vac)
	wall := time.Since(start).Seconds()

	// 4. evidence
	if rp == nil {
		cov := map[string]interface{}{
			"evaluations":         total.Evaluations,
			"distinct_nontrivial": len(sigs),
			"rule":                plan.Rule,
			"samples":             total.Samples,
			"cases":               total.Cases,
			"observed":            total.Counters,
			"per_workload":        perJob,
			"exhaustive":          false,
			"explanation":         plan.Explanation,
		}
		if len(total.Samples) == 0 {
			cov["samples"] = []interface{}{"(no sample recorded)"}
		}
		if len(total.Inconclusive) > 0 {
			if len(total.Inconclusive) > 10 {
				total.Inconclusive = total.Inconclusive[:10]
			}
			cov["inconclusive_cases"] = total.Inconclusive
		}
		if len(knownSeen) > 0 {
			cov["known_findings_observed"] = knownSeen
		}
		if len(notes) > 0 {
			if len(notes) > 20 {
				notes = notes[:20]
			}
			cov["notes"] = notes
		}
		verdict := "held-on-observed"
		if newViol > 0 {
			verdict = "violated"
		} else if timedOut || len(vac) > 0 {
			verdict = "inconclusive"
		}
		cov["verdict"] = verdict
		ev := map[string]interface{}{
			"property_id": prop,
			"tier":        tier,
			"seed":        seed,
			"level":       plan.Level,
			"coverage":    cov,
			"assumptions": plan.Assumptions,
			"wall_s":      wall,
			"violations":  newViol,
		}
		b, _ := json.MarshalIndent(ev, "", " ")
		os.WriteFile(filepath.Join(evDir, prop+".json"), b, 0644)
	}
	for _, l := range out {
		fmt.Println(l)
	}
	fmt.Printf("property=%s tier=%s seed=%d cases=%d evaluations=%d distinct_nontrivial=%d wall=%.1fs\n", prop, tier, seed, total.Cases, total.Evaluations, len(sigs), wall)
	keys := make([]string, 0, len(total.Counters))
	for k := range total.Counters {
		keys = append(keys, k)
	}
	sort.Strings(keys)
	var kv []string
	for _, k := range keys {
		kv = append(kv, fmt.Sprintf("%s=%d", k, total.Counters[k]))
	}
	fmt.Println("observed:", strings.Join(kv, " "))
	if newViol > 0 {
		os.Exit(1)
	}
	if timedOut {
		fmt.Printf("INCONCLUSIVE property=%s reason=watchdog %v\n", prop, notes)
		os.Exit(2)
	}
	if len(vac) > 0 {
		fmt.Printf("INCONCLUSIVE property=%s reason=non-vacuity %s\n", prop, strings.Join(vac, ","))
		os.Exit(2)
	}
	os.Exit(0)
}

func sanitize(s string) string {
	s = regexp.MustCompile(`[^A-Za-z0-9_.-]+`).ReplaceAllString(s, "_")
	if len(s) > 80 {
		s = s[:80]
	}
	return s
}

func trunc(s string, n int) string {
	if len(s) > n {
		return s[:n] + "…"
	}
	return s
}
