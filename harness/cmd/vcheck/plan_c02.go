package main

func init() {
	plans["C02"] = Plan{
		Jobs:  []Job{{Workload: "C02.restart", Mode: "plain", QuickB: 16, ThoroughB: 16, QuickT: 1800, ThoroughT: 7200}, {Workload: "C02.restart", Mode: "race", QuickB: 4, ThoroughB: 8, ThoroughOnly: true}},
		Level: "fault_enumeration",
		Rule: "PRNG-generated histories driving the REAL Voter + VoteDB + VotesWrapper + BLS over one persistent database: context changes as the Server produces them (step/index/round progression, re-announced contexts, certificate rounds), votes of three other (possibly Byzantine) validators for three candidate blocks so that quorums for different blocks form, proposal availability changing between calls, per-step sortition outcomes independent per (round,index,step). Crash/restart (<=3 per history) at event boundaries and, through the vote hook, right after a vote record was persisted but before it is posted, and right after it was posted; restart = new Voter on the same database with the context regressing to index 1 as StartNewRound does. Every vote that reaches the post point is entered in the ledger. distinct_nontrivial = distinct (restarts, cert round?, vote kinds emitted, vote count bucket) among histories with at least one restart and one vote.",
		Explanation: "held = in no history did the ledger hold two different block hashes for one vote kind in one (round,index) (three for next-index)",
		Assumptions: []string{"crash model: process kill; every completed DB write survives", "a vote that was persisted but not yet posted when the process died is not counted as emitted", "sortition callbacks are supplied by the harness (as the package's own tests do)"},
		Require:     map[string]int64{"crashes_before_a_database_write": 30, "votes_emitted": 2000, "restarts": 800, "cert_round_histories": 80, "emitted_prevote": 500, "emitted_precommit": 100, "emitted_next": 200, "emitted_certificate": 20},
	}
}
