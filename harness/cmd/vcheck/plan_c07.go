package main

func init() {
	plans["C07"] = Plan{
		Jobs: []Job{
			{Workload: "C07.chains", Mode: "plain", QuickB: 16, ThoroughB: 16},
			{Workload: "C07.scripted", Mode: "plain", QuickB: 3, ThoroughB: 4},
		},
		Level:       "exploration",
		Rule:        "C07.chains: the C06 chain generator (own PRNG stream) on builder node A and importer node B. After EVERY block the monitor enumerates from the committed tries of A and of B all accounts of the account trie, all validator records of the validator trie, the role/kind statistics and the withdraw queue, and requires: sum of balances + validator Token + unfinished withdraw FinalBalance + role pools + residues + validator RewardsDistributable + in-flight activations (generator ground truth: value of the successful create/deposit/delegation-add txs of the current period) == genesis total. Bucket flows: fees really paid by senders (sum of balances over the address universe sampled on the builder's live state before/after every tx, minus detained value) == header.GasRewards == sum gasUsed*price; skipped txs leave balances untouched; delta rewards pool == -Subsidy + donations; delta PenaltyTo == sum of the slashing logs' totals; withdraw records only move unfinished->finished, at period ends, when mature, once, FinalBalance shrinking only in slashing blocks. Known leaks are predicted exactly (forced-settlement share from the pre-block state + header; rewards of validators deleted while empty, observed between EndBlock and the flush; gas refunds still credited as fees, measured per tx) and excused only when the observed discrepancy equals the prediction to the last LU; the expected total is then rebased. distinct_nontrivial = distinct (scenario, tx kind:outcome set, features: forced/matured/refund/inactive/doublesign/penalty-from-withdraw/recovered/pool-dry/...) signatures.",
		Explanation: "held = on the executions of this run the conservation equation and every bucket-flow equality held after every block on both nodes (apart from exactly predicted known findings)",
		Assumptions: []string{"contracts of the workload never burn value (SELFDESTRUCT beneficiary is the caller)", "in-flight value is the generator's ground truth, not the staking records' FinalValue", "protocol version 5 parameters of network 99"},
		Require:     map[string]int64{"blocks_built": 4000, "blocks_balanced": 4000, "importer_states_checked": 4000, "periods_crossed": 250, "forced_settlements": 10, "withdrawals_matured": 20, "slashings_inactivity": 10, "blocks_with_subsidy": 500, "withdraw_records_created": 50, "refunds_stk.dlgadd": 20, "slashings_doublesign": 10, "penalties_hitting_withdraw_records": 5, "expulsions_recovered": 5},
	}
}
