package main

// Job is one workload of a property in one build variant.
type Job struct {
	Workload     string
	Mode         string // plain | race | asan | intpool
	QuickB       int    // parallel child processes (batches) in the quick tier
	ThoroughB    int
	QuickT       int // watchdog seconds (generous; firing = inconclusive)
	ThoroughT    int
	ThoroughOnly bool
	Env          map[string]string
}

func (j Job) batches(tier string) int {
	if tier == "thorough" && j.ThoroughB > 0 {
		return j.ThoroughB
	}
	if j.QuickB > 0 {
		return j.QuickB
	}
	return 8
}

func (j Job) timeout(tier string) int {
	if tier == "thorough" {
		if j.ThoroughT > 0 {
			return j.ThoroughT
		}
		return 7200
	}
	if j.QuickT > 0 {
		return j.QuickT
	}
	return 2400
}

// Plan describes how a property is decided.
type Plan struct {
	Jobs        []Job
	Level       string
	Rule        string
	Explanation string
	Assumptions []string
	Require     map[string]int64 // non-vacuity: minimum counter values, else the run is inconclusive
}

var plans = map[string]Plan{}
