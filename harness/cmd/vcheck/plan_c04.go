package main

func init() {
	plans["C04"] = Plan{
		Jobs: []Job{
			{Workload: "C04.quantile", Mode: "plain", QuickB: 16, ThoroughB: 16},
			{Workload: "C04.binding", Mode: "plain", QuickB: 16, ThoroughB: 16},
			{Workload: "C04.priority", Mode: "plain", QuickB: 16, ThoroughB: 16},
			// the VRF's curve arithmetic goes through cgo libsecp256k1: same workload under ASan
			{Workload: "C04.binding", Mode: "asan", QuickB: 8, ThoroughB: 16, ThoroughT: 7200, ThoroughOnly: true},
		},
		Level: "exploration",
		Rule: "C04.quantile: PRNG-drawn (stake, p) configurations (protocol committee sizes 26/2000/4000 and random ones over integer total stakes, n·p at the forward-scan/binary-search switch 20, arbitrary p, p→1, tiny p, stakes 1..30; stake ≤ 10^7, expected seats ≤ 12000) × per configuration ~600-1000 VRF outputs: 0, 1, 2^256-1 and other edges, 33 values around the float64 0.99 switch-over (±1, ±2^200..2^203), uniform, log-spaced into both tails down to 1e-77, and outputs *targeted* at the exact decision boundaries Pr(X≤k) for ~40 seat counts k per configuration (extremes, mode, switch-over quantiles, deep tails) at 15 offsets of −4…+4 tolerance widths (|θ|≥2 lies outside the abstention band and is decisive against an off-by-one in either direction; |θ|≤0.5 measures the implementation's float error as a fraction of the band). Every answer of the real `choose` is range-checked and compared with an exact 384-bit binomial table built from the pmf ratio recurrence; the oracle abstains only inside tol(k)=rho(n)·min(Pr(X≤k),Pr(X>k))+2^-51·pmf(k)(n−k), rho(n)=clamp(64·2^-53·n·ln n,1e-10,1e-6). p=1 and p=0 are judged by their exact rule; p>1 must not panic and stay in [0,stake]. " +
			"C04.binding: real credentials from VrfSortition (keys incl. 1,2,3, N-1.., short scalars; indexes/steps incl. 0 and 2^32-1; expected seats 0.05…400): VRF value and point compared with an independent math/big secp256k1 + SHA-2 reference, seat count with the exact table, ProofToHash on an independently built message, honest credential accepted iff seats≥1, then ~35 single-field perturbations (key, 4 seed bits, index ±1/bit, step ±1/bit, step↔index, seat count ±1/0/bit31/other, 8 proof bits in s/t/format byte/x/y, 5 length changes, negated point, proof of another message, proof of another key, s↔t) must all be rejected by VrfVerifySortition, 6 perturbations of threshold/stake/total are judged by the seat-count oracle, the priority must equal the reference max Keccak(value‖i), verify, and every other candidate (other seat hashes, bit flips, 0, value, all-ones) and 10 field perturbations must be rejected by VrfVerifyPriority; plus zero-seat priorities, degenerate proof scalars (s,t ∈ {0, N, N+1.., 2^256-1}) and threshold>total through the exported entry points. distinct_nontrivial = distinct (generator kind, code branch, stake decade, mean decade, hash kind, outcome bucket) resp. (key kind, committee, stake decade, seat bucket) signatures." +
			" C04.priority: VrfComputePriority against the reference for seat counts up to 4096 and across 65536 - edge and random seat counts, and directed VRF values whose largest seat hash falls exactly on a multiple of 256 (found with the reference).",
		Explanation: "held = on the executions of this run every seat count was the exact binomial quantile (outside the stated float band), stayed in [0, stake], no call panicked, every honest credential/priority verified and no perturbed one did",
		Assumptions: []string{
			"the exact table (pmf ratio recurrence at 384 bits, window cut at 2^-460 of the mode) is the binomial distribution; checked per run against pmf sums and against closed forms for p=1",
			"float tolerance: gonum's regularized incomplete beta is allowed a relative error rho(n) on the smaller tail mass (largest deviation observed inside the band: 5–10 % of it, reported as max_inband_error_ppm_of_tolerance_beta_dominated) and 1-p a perturbation of 2^-51 relative (the float64 rounding of 1-p moves p by ≤ 2^-54); answers inside that band are counted as ambiguous, not as correct",
			"judged domain: stake ≤ 10^7 and expected seats n·p ≤ 12000 (3× the largest protocol committee); beyond it gonum's CDF itself loses accuracy (1.3e-3 at n=10^7, p=0.5) and nothing is claimed",
			"SHA-256/SHA-512 of the Go standard library and Keccak-256 of golang.org/x/crypto are correct; reference public keys are cross-checked against the node's for every credential",
			"proof randomness comes from crypto/rand inside Evaluate: verdicts do not depend on it (value and seat count are deterministic), witnesses carry the actual proof bytes",
		},
		Require: map[string]int64{
			"branch_forward": 120000, "branch_bsearch": 120000, "branch_mirrored": 120000,
			"decisive_targeted_forward": 8000, "decisive_targeted_bsearch": 20000, "decisive_targeted_mirrored": 25000,
			"hash_switch": 25000, "hash_edge": 12000, "hash_uniform": 100000, "corner_p_eq_1": 500, "corner_p_eq_0": 1500, "p_gt_1_probes": 20,
			"seats_eq_stake": 20000, "seats_zero": 50000,
			"credentials": 3500, "honest_accepted": 2000, "vrf_value_checked": 3500, "perturbations_rejected": 100000,
			"stake_params_same_quantile": 3000, "stake_params_other_quantile": 6000,
			"honest_priority_accepted": 2000, "priority_candidates_rejected": 15000,
			"zero_seat_priority_probes": 20, "degenerate_scalar_probes": 9,
			"priority_function_compared": 800, "priority_directed_values": 40, "priority_argmax_on_multiple_of_256": 80, "priority_argmax_seat_ge_256": 200,
		},
	}
}
