package main

func init() {
	plans["C01"] = Plan{
		Jobs:  []Job{{Workload: "C01.forge", Mode: "plain", QuickB: 16, ThoroughB: 16}},
		Level: "exploration",
		Rule: "Per world (6 validator-set configurations: equal/skewed/tiny stakes, House and offline members, 3-10 validators, real BLS+VRF keys, real validator trie) the forge searches a round index with an honest proposer and honest precommit quorum, then builds header variants with 27 mutation operators singly and in combinations (dropped/duplicated/replayed/wrong-index/wrong-step/House/offline/outsider/inflated votes, author-chosen thresholds, aggregate-signature tampering, proposer credential tampering, garbage bytes, foreign seal). Every variant goes through the real Server.VerifySideChainHeader, VerifyHeader(seal=true) and VerifySeal. Oracle = construction ground truth: sum of true seat counts (protocol threshold) of distinct online-chamber members that really signed this hash/round/index with a precommit credential must reach floor(0.685*T_protocol), and the proposer credential must be valid under the protocol proposer threshold. distinct_nontrivial = distinct (operator set, accepted?, weight-vs-quorum bucket, proposerOK).",
		Explanation: "held = no header was accepted whose ground-truth weight was below the protocol quorum or whose proposer credential was invalid, and the verifier never panicked, on the headers of this run",
		Assumptions: []string{"real cryptography: forgeries are those computable with keys the harness owns", "seat counts come from the repository's VrfSortition (its exactness is C04's subject)", "the oracle is a necessary condition for acceptance (it credits every structurally valid voter with its full true weight), so it never demands more than the property"},
		Require:     map[string]int64{"honest_accepted": 100, "hostile_rejected": 500, "boundary_headers": 20, "headers": 1500},
	}
}
