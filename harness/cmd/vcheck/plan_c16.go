package main

func init() {
	plans["C16"] = Plan{
		Jobs: []Job{
			{Workload: "C16.frames", Mode: "plain", QuickB: 8, ThoroughB: 8},
			{Workload: "C16.frames", Mode: "intpool", QuickB: 8, ThoroughB: 8},
		},
		Level:       "exploration",
		Rule:        "TODO",
		Explanation: "TODO",
		Assumptions: []string{},
		Require:     map[string]int64{},
	}
}
