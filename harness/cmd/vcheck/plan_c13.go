package main

func init() {
	plans["C13"] = Plan{
		Jobs:  []Job{{Workload: "C13.seq", Mode: "plain", QuickB: 16, ThoroughB: 16}, {Workload: "C13.seq", Mode: "race", QuickB: 4, ThoroughB: 8, ThoroughOnly: true}},
		Level: "exploration",
		Rule: "PRNG-generated op sequences (put/del/put-empty/hash/commit/reopen/db-commit/dereference/cap) over 4 key styles (dense fixed-length, prefix-of-each-other, 32-byte, rlp(index)), plain and secure tries, cache limits 0-3; after every 16 ops and at the end lookups+iteration are compared with a Go-map model, roots with an independent Yellow-Paper MPT calculator, every kept root is re-read after GC/cap and through a fresh Database, proofs (present+absent keys) are verified and 5 tamperings each tried. distinct_nontrivial = distinct (style, secure, cache limit, content size bucket, feature set, prefix-pair?) signatures.",
		Explanation: "held = no lookup/iteration/root/proof disagreement with the model on the executions of this run",
		Assumptions: []string{"keccak256 from golang.org/x/crypto is correct", "reference MPT calculator validated against the published doe/dog/dogglesworth and empty-root vectors at start of every run", "proof databases are keyed by the keccak of each delivered blob, as a light client builds them"},
		Require:     map[string]int64{"feat_proof": 50, "feat_commit": 50, "feat_deref": 5, "feat_cap": 5, "feat_diskreopen": 5, "tampered_proofs": 100, "feat_derivesha": 5},
	}
}
