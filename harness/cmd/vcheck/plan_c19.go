package main

func init() {
	plans["C19"] = Plan{
		Jobs: []Job{
			{Workload: "C19.sched", Mode: "plain", QuickB: 8, ThoroughB: 10},
			{Workload: "C19.dl", Mode: "plain", QuickB: 3, ThoroughB: 2},
			{Workload: "C19.sched", Mode: "race", QuickB: 3, ThoroughB: 2},
			{Workload: "C19.dl", Mode: "race", QuickB: 2, ThoroughB: 2},
		},
		Level: "fault_enumeration",
		Rule: "Source worlds: plain tries (6 key styles incl. equal sub-tries under several parents and embedded nodes), model-built states (equal storage roots / code / delegation blobs across accounts, twin leaves, empty accounts), states written by the real StateDB pipeline (state + validator + staking trie into one database) and a contract whose code equals the RLP of another account's storage node; each with a neighbouring root sharing most nodes. " +
			"C19.sched drives trie.NewSync / state.NewStateSync with an adversarial responder (Missing(k), order, batching, duplicates, late, never+re-request, 6 corruptions offered under the keccak of the delivered bytes, unrequested blobs), periodic Commits, interruptions, aborted Commits, and replays a crash after individual Puts of every recorded write sequence (write order children-before-parents checked for EVERY prefix, sampled prefixes actually resumed to the same or the neighbouring root). " +
			"C19.dl drives the production trieSync through downloader.New/RegisterPeer/DeliverNodeData/FetchVldTrie (+verif hooks for the state and staking entries) with 1-4 scripted peers (partial, corrupt, duplicate, stale, extra, empty, nil, leaving, double-delivering, late joiner, mid-way Cancel) and resumes after every error return. " +
			"Verdicts: reported completion => every blob of the model closure present byte-identically and the production readers return exactly the source content; not completed => an openable+traversable root must already equal the source; accepted data must belong to the synced trie; everything stored hashes to its key. distinct_nontrivial = distinct (world kind, style, plan, interruptions, size bucket, sharing) and (kind, adversary feature set) signatures.",
		Explanation: "held = on every execution of this run a sync that reported completion left a complete, byte-identical, readable copy; no interrupted or crashed database presented a partial trie as complete; nothing foreign was accepted or stored",
		Assumptions: []string{
			"keccak256 from golang.org/x/crypto is correct",
			"responses are offered the way you/downloader/triesync.go does: the hash is computed from the delivered bytes (trie.Sync.Process trusts the caller's hash by design)",
			"the model node construction (model.MPTBuild / MPTNodeRefs) is validated at the start of every run against the published doe/dog vector and against the node set the production trie writer stores for 30 generated contents",
			"a sync that never reaches Pending()==0 under an eventually honest responder (or a production sync that hangs until the watchdog) makes the case inconclusive, not violated (the property does not state liveness); any such case makes the whole run INCONCLUSIVE through the children_without_stuck_sync minimum",
			"crash model of driver 1: any prefix of the sequence of Puts issued by Sync.Commit is a possible on-disk state (the production caller uses an atomic batch per Commit, so its crash points are the batch boundaries)",
			"the production driver runs on real goroutines and timers: its schedules are not reproducible bit by bit, its verdicts do not depend on them",
		},
		Require: map[string]int64{
			"children_without_stuck_sync":       16, // every child of the run (quick and thorough: 16) judged all its syncs
			"sessions_completed":                2000,
			"dl_destination_write_failures_hit": 20, // production syncs whose destination database failed a batch write (full disk), final flush included
			"sessions_interrupted":              800,
			"sessions_commit_aborted":           100,
			"crash_prefixes_order_checked":      50000,
			"crash_prefixes_resumed":            2000,
			"resumes_completed":                 2000,
			"cases_with_shared_nodes":           800,
			"raw_blobs":                         2000,
			"cases_with_embedded_nodes":         300,
			"raw_blobs_shared_by_accounts":      300,
			"storage_roots_shared_by_accounts":  300,
			"offer_honest":                      50000,
			"offer_dup":                         1000,
			"offer_late":                        1000,
			"offer_unrequested":                 1000,
			"offer_bitflip":                     200,
			"offer_truncated":                   200,
			"offer_other-node":                  200,
			"rej_not_requested":                 2000,
			"rej_already_processed":             500,
			"rerequests":                        1000,
			"unanswered_rounds":                 1000,
			"cases_prod":                        100,
			"cases_trie":                        500,
			"cases_state":                       500,
			"dl_syncs_nil":                      150,
			"dl_syncs_error":                    10,
			"dl_resumes":                        10,
			"dl_corrupt_items":                  100,
			"dl_partial_answers":                30,
			"dl_mode_drop":                      10,
			"dl_mode_nil":                       10,
			"dl_mode_empty":                     10,
		},
	}
}
