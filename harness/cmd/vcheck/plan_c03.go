package main

func init() {
	plans["C03"] = Plan{
		Jobs: []Job{
			{Workload: "C03.count", Mode: "plain", QuickB: 16, ThoroughB: 16, QuickT: 1800, ThoroughT: 7200},
			{Workload: "C03.real", Mode: "plain", QuickB: 12, ThoroughB: 16, QuickT: 1800, ThoroughT: 7200},
			{Workload: "C03.race", Mode: "race", QuickB: 4, ThoroughB: 8, QuickT: 1800, ThoroughT: 7200},
		},
		Level: "exploration",
		Rule: "C03.count: PRNG-generated vote schedules against the REAL Voter/VotesWrapper/BLS (7 validators with real BLS keys, harness-supplied weights 1-5 and committee sizes 16-27 so that counted weight lands on quorum-1/quorum/quorum+1 often): valid, duplicate, equivocating, bad-signature, wrong-sender, invalid-credential, stale-round and stale-index votes of all four kinds interleaved with step and round-index changes, certificate rounds in a third of the schedules. A reference vote-counting model (first vote per sender counts, a second different vote removes the sender) is fed with exactly the delivered votes in delivery order and evaluated inside the synchronous emission hooks: precommit needs the prevote quorum, certificate vote and commit need the precommit quorum, certificate-round commit also the certificate quorum; every commit's attached vote set must be distinct non-equivocating senders with valid BLS signatures over that block whose weight reaches the quorum and that PackVotes accepts. C03.real (real-credential mode): 4-6 validators with real VRF sortition weights, real BLS and the protocol committee sizes; a round index with an honest proposer and reachable quorum is searched, the real prevotes/precommits of every peer (plus equivocations for competing proposals) are delivered in random order; the same model judges emissions and EVERY commit is packed with Voter.PackVotes as Server.commit does and the resulting header is offered to the real Server.VerifySideChainHeader. C03.race: 4 delivering goroutines + a context-changing goroutine under the race detector. distinct_nontrivial = distinct (T, cert round?, commits, equivocation?, boundary hit?).",
		Explanation: "held = no emission without the model's quorum, no invalid/equivocator vote inside a commit's vote set, no race report",
		Assumptions: []string{"sortition weights and credential validity are harness-supplied callbacks (stub-weight mode, as the package's own tests do); certificate rounds are exercised in stub-weight mode only", "quorum constants 0.685/0.585 are taken from the property's anchored description"},
		Require:     map[string]int64{"commits": 60, "equivocations": 300, "boundary_emissions": 30, "cert_round_commits": 5, "schedules_recycling_vote_wrappers": 40, "cert_round_schedules_recycling_vote_wrappers": 10, "delivered_bad-signature": 100, "delivered_wrong-sender": 100, "delivered_invalid-credential": 100, "concurrent_runs": 20, "real_commits": 30, "commit_headers_verified": 30},
	}
}
