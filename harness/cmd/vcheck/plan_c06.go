package main

func init() {
	plans["C06"] = Plan{
		Jobs: []Job{
			{Workload: "C06.chains", Mode: "plain", QuickB: 16, ThoroughB: 16},
			{Workload: "C06.zeroslash", Mode: "plain", QuickB: 4, ThoroughB: 8},
			{Workload: "C06.chains", Mode: "race", QuickB: 4, ThoroughB: 8, ThoroughOnly: true},
		},
		Level:       "exploration",
		Rule:        "C06.chains: PRNG-generated chains (4 genesis presets of 3-6 validators of mixed roles/statuses, funded/dry/empty rewards pool; transfers, contract creations/calls incl. reverting, nested-failing, self-destructing, refund-earning and log-emitting ones, all nine staking actions valid and invalid, skipped transactions of every dispatch class, silent chamber validators (inactivity slashing), forged BLS double-sign evidences) of 176-208 blocks (thorough: up to 592) = 11-13 staking periods, built block by block by a transcription of miner/worker.go on node A. Every block: (a) re-executed k=3 (thorough 10) times through StateProcessor.Process on fresh state objects of the parent: three roots, receipts RLP incl. the module receipt, receipt root, bloom, gas used, logs must equal the builder's and each other; (b) InsertChain on independent node B must accept it unchanged (error / ignored block / other head = violation), stored receipts and a node-by-node enumeration of the three tries through both databases must agree; (c) the whole chain is batch-imported by a third node; C08 invariants on builder post state, importer head state and look-back reader of every block (classes c08:...). C06.zeroslash: scripted mini-chains (minimal witnesses): a double-sign evidence against a House validator of 1..49 LU (penalty rounds to zero) resp. 50..99 LU (penalty 1 LU, stake 0), and the sequence: operator withdraws all but 10 YOU of the self token, then a delegator unbinds 100 YOU in the same period. distinct_nontrivial = distinct (scenario, set of tx kind:outcome and skip reasons, slashdata) signatures.",
		Explanation: "held = on the executions of this run every repetition reproduced the builder's commitments and the importer accepted every built block with an identical state",
		Assumptions: []string{"the block builder is a line-by-line transcription of miner/worker.go with the tx pool replaced by an ordered list (price ties in the real heap are broken by map order) and wall-clock time by a logical timestamp", "the neutral engine (solo) accepts every header: consensus rules are not the subject", "repetitions are in-process (Go randomises map iteration per range statement); cross-process repetitions with different GOMAXPROCS are not run"},
		Require:     map[string]int64{"blocks_built": 4000, "blocks_imported": 4000, "determinism_repetitions": 12000, "periods_crossed": 250, "third_node_chains": 10, "c08_block_checks": 4000, "tx_stk.create_ok": 20, "tx_stk.dlgadd_ok": 50, "tx_stk.withdraw_ok": 20, "tx_stk.dlgsub_ok": 10, "tx_evm.call.store_ok": 20, "evidences_posted": 10, "blocks_with_slashdata": 10},
	}
}
