package main

func init() {
	plans["C12"] = Plan{
		Jobs: []Job{
			// the probe comes first so that the replay file of a class carries the minimal directed witness
			{Workload: "C12.probe", Mode: "plain", QuickB: 1, ThoroughB: 1},
			{Workload: "C12.walk", Mode: "plain", QuickB: 10, ThoroughB: 11, ThoroughT: 7200},
			{Workload: "C12.sweep", Mode: "plain", QuickB: 5, ThoroughB: 4, ThoroughT: 7200},
			{Workload: "C12.chain", Mode: "plain", QuickB: 12, ThoroughB: 16},
		},
		Level:       "exploration",
		Rule:        "The REAL core.VerifyYouVersionState filters, at every state, the full grid of interesting values of the five header version fields (CurrVersion x NextVersion x NextApprovals x NextVoteBefore x NextSwitchOn: 0, parent value and +-1/+2, threshold and +-1, current round, configured window end +-1, min/max/mid switch round +-1, every kind of known/unknown version, the honest child's values); every accepted candidate is judged by an online trace checker written from the property statement (model/c12_fsm.go: pins target, window end, switch round and the proposing version's parameters at the announcing header and counts approvals itself) as a one-step extension of the chain accepted so far. C12.walk: PRNG-generated params.Versions tables (2-4 versions, vote rounds 1-8, threshold 0..rounds+1, min/max wait 0-6, cyclic/absent/unknown/self approved upgrades, in- and out-of-range upgrade waits, sparse ids, small and 2^40 start rounds), 10 random walks per table that extend one accepted candidate per round (category-weighted: switch/propose/none/clear/+1/+0/other, per-walk approval probability and honest bias). C12.sweep: depth-2 breadth-first deviations around every state of an honest run, each continued by the real builder beyond the switch. At every visited state the header derived by the REAL core.ProcessYouVersionState must be accepted. C12.probe: trace-checker self-test on fabricated traces, directed late-approver/abstainer/honest adversaries on hand-made and on the three real tables (main net, test net, test-case), honest runs through all upgrades of the real tables with the grid around announcement/threshold/window-end/switch rounds, random walks on the real test-case table. A well-formed switch to a locally unknown version (the verifier's intended fatal exit) is recognised beforehand and counted, not executed. C12.chain: the same trace checker and the 'active version' read (VersionForRound(r) must be the version of the CANONICAL header 8 rounds back, for every r up to head+8) on REAL BlockChains: an honest main branch and a sibling branch on which the upgrade is announced/approved later (YouV4->YouV5 with scaled-down window/threshold/wait), imported into a third node as main, then the longer sibling (reorg), then a longer main continuation (reorg back), in random chunks; checked after every import on every node, and the node that saw both branches must still build acceptable blocks. distinct_nontrivial = distinct abstract FSM states after a step (phase, edge kind, monitor event, approvals-threshold, rounds to window end, rounds to switch, NextVoteBefore rewritten?) plus table/outcome shapes per case.",
		Explanation: "held = on the chains of this run no accepted header changed the version outside the announced round / without in-window quorum / before the minimum wait, no block added more than one approval, and no honest child was rejected",
		Assumptions: []string{
			"the voting window of a proposal is [announcing round, NextVoteBefore as announced), at most UpgradeVoteRounds of the proposing version long; the announcing block counts as the first approval",
			"threshold and minimum wait are those of the version that was active when the proposal was announced",
			"a switch to a version that is not in the local table terminates the process by design (logging.Crit) and is outside the statement",
			"round numbers far from 2^64 (no overflow cases)",
		},
		Require: map[string]int64{
			"tables": 500, "walks": 3000, "steps_accepted": 100000, "candidates_verified": 500000000, "candidates_accepted": 500000,
			"honest_children_checked": 100000, "switches_observed": 5000, "switches_with_inwindow_quorum": 3000, "proposals_announced": 10000,
			"proposals_failed": 2000, "approvals_in_window": 20000, "threshold_reached_in_window": 5000,
			"steps_deviating_from_honest": 20000, "skipped_unknown_version_fatal": 100, "sweep_depth2": 10000, "monitor_selftest_traces": 15,
			"real_tables_directed": 3, "real_tables_honest_run": 3, "real_table_upgrades_followed": 12, "tables_with_zero_min_wait": 20,
			"chain_reorgs_to_sibling": 6, "chain_reorgs_back_to_main": 6, "chain_cases_with_version_divergent_branches": 5, "chain_active_version_lookups": 1000, "canonical_chains_with_switch_checked": 20,
		},
	}
}
