package main

func init() {
	plans["C17"] = Plan{
		Jobs: []Job{
			{Workload: "C17.sign", Mode: "plain", QuickB: 8, ThoroughB: 16, QuickT: 1800, ThoroughT: 14400},
		},
		Level:       "exploration",
		Rule:        "TODO",
		Explanation: "TODO",
		Require:     map[string]int64{},
	}
}
