package main

func init() {
	plans["C20"] = Plan{
		Jobs: []Job{
			{Workload: "C20.seq", Mode: "plain", QuickB: 10, ThoroughB: 10},
			{Workload: "C20.conc", Mode: "race", QuickB: 6, ThoroughB: 5},
			{Workload: "C20.conc", Mode: "plain", QuickB: 1, ThoroughB: 1, ThoroughOnly: true},
		},
		Level: "exploration",
		Rule: "The real core.TxPool over a fork-aware harness chain with real StateDB states (blockChain interface: CurrentBlock/GetBlock/StateAt/SubscribeChainHeadEvent; head events through an event.Feed as core.BlockChain posts them). " +
			"C20.seq: PRNG histories of 40-120 operations: batches of AddRemotes/AddRemotesSync/AddLocals with 12 admission classes (next, gapped, far, underpriced, unaffordable, exact-balance, oversized, wrong network, stale nonce, over the block gas limit, below intrinsic gas, resubmission), replacements at the price-bump boundary (threshold-1, threshold, threshold+1, equal, +1) of pending and queued slots, blocks mined from Pending(), foreign blocks, reorgs of depth 1-3 built by the harness (re-including a random part of the abandoned transactions, foreign ones or nothing, with balance and gas-limit changes) that lower nonces/balances and make the pool re-inject through its production reset, 2-4 head events (extensions and fork flips, optionally with an asynchronous submission) fired back to back and awaited once, SetGasPrice; limits as small as AccountSlots 1 / GlobalSlots 3 / AccountQueue 1 / GlobalQueue 2 (4 in 5 histories) so that every truncation path runs, preset locals and NoLocals variants. " +
			"After EVERY operation, at quiescence: Content() lists are sorted, per-account, disjoint (no hash pending and queued); Pending()==Content().pending; pending is gap-free, starts at the account nonce of the harness' own ground truth at the head, each pending tx is affordable and within the block gas limit; queued nonces lie strictly above pending and not below the account nonce; Nonce()==account nonce+pending count; Stats/Get/Status agree with the lists for pooled and for no longer pooled hashes (replaced, mined, dropped, rejected); limit rules (pool size without locals, GlobalSlots unless every non-local account is within AccountSlots, GlobalQueue unless only locals remain; after an explicit promotion request also AccountQueue and no executable transaction left queued); the index walk VerifCheckInternals under pool.mu (lists vs lookup vs priced heap vs virtual nonces vs the pool's own state); an admitted transaction that the admission model calls invalid; after a replacement verdict the losing hash must be gone from Pending/Content/Get/Status at once and the winner consistent in all of them; after a single-event reorg every transaction mined only in the abandoned branch and still valid at the new head must be pooled, and pending again when all its predecessors from the account nonce are (only when no limit can have interfered). " +
			"C20.conc (race build): 2-5 adders, one head-changer (mine/foreign/reorg/batched/SetGasPrice), 1-3 readers of every exported view, an announcement subscriber, two samplers judging atomic Content() snapshots and the index walk WHILE everything runs, 3 ms eviction and 5 ms stats tickers (Lifetime 1-15 ms in a third of the runs), Gosched bursts; fixed amounts of work, then the quiescent judgement. Any race report is a violation. " +
			"distinct_nontrivial = distinct (config, feature set) case signatures plus abstract pool states (bucketed pending/queued/account counts, locals).",
		Explanation: "held = no view or index inconsistency, no lost re-injection and no race report on the executions of this run",
		Assumptions: []string{
			"the harness chain executes plain transfers only (nonce+1, balance-=value+21000*price, explicit balance adjustments standing for everything else); the StateDB content of every block built is re-read through StateAt and compared with the ground truth",
			"quiescence = a sentinel head event (nil block, ignored by the pool) has been consumed by the pool's event loop and an empty promotion request has been served (VerifSync); no forced reset(nil,nil) is used because it would re-derive the pool from the head and hide what the production resets left behind",
			"verdicts that differ from the documented admission/replacement rules without making a view inconsistent are reported as obs_verdict_deviation, not as violations (an ADMITTED invalid transaction is a violation); a promotable transaction left queued by a reset that was merged with its submission is counted as obs_promotable_left_queued (liveness, not in the statement)",
			"batched head events: only the view invariants are judged, because merged and separate resets legitimately differ in what they re-inject",
			"TxPool.TransactionsNumber (reads the lists without the lock; no caller in the tree) is not exercised; the local-transaction journal is disabled",
		},
		Require: map[string]int64{
			"ops": 80000, "tx_accepted": 50000, "admission_invalid_checked": 30000, "replaced_ok": 3000, "replace_at_boundary": 3000,
			"op_reorg": 8000, "reorg_nonce_lowered": 5000, "reorg_repooled_checked": 3000, "reorg_pending_again_checked": 3000, "batched_head_events": 15000,
			"feat_pending-full": 400, "feat_queue-full": 300, "feat_pool-full": 400, "feat_full-underpriced": 50, "accepted_then_dropped": 1500,
			"feat_reorg-lowers-balance": 1000, "feat_gaslimit-change": 1000, "feat_replaced-q": 500,
			"conc_runs": 50, "conc_snapshots_nonempty": 3000, "conc_internal_walks": 3000, "conc_head_changes": 2000, "conc_submitted": 20000, "conc_reads": 20000, "feat_eviction": 5,
		},
	}
}
