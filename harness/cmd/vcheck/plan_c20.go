package main

func init() {
	plans["C20"] = Plan{
		Jobs: []Job{
			{Workload: "C20.seq", Mode: "plain", QuickB: 10, ThoroughB: 12},
			{Workload: "C20.conc", Mode: "race", QuickB: 6, ThoroughB: 4},
		},
		Level: "exploration",
		Rule: "The real core.TxPool over a fork-aware harness chain with real StateDB states. C20.seq: PRNG histories of 40-120 operations (batches of local/remote/sync submissions of 12 admission classes, replacements at the price-bump boundary, blocks mined from Pending(), foreign blocks, reorgs of depth 1-3 built by the harness that lower nonces/balances and re-inject through the production reset, 2-4 head events fired back to back, SetGasPrice, gas-limit and balance changes; limits as small as 1/3/1/2 so that truncation runs); after EVERY operation, at quiescence: Pending()==Content().pending, disjoint/sorted/gap-free lists, pending starts at the account nonce of the harness' own ground truth and is affordable, queued strictly above, Nonce()==nonce+pending, Stats/Get/Status agree for pooled and no longer pooled hashes, limit rules, VerifCheckInternals (index walk under pool.mu); after a reorg every transaction mined only in the abandoned branch and still valid must be pooled, and pending again when its predecessors are. C20.conc (race build): adders, a head-changer (mine/foreign/reorg/batched/SetGasPrice), readers of every exported view and samplers checking Content() snapshots and the index walk while running, short eviction/report tickers, then the quiescent check. distinct_nontrivial = distinct (config, feature set) case signatures plus abstract pool states (bucketed pending/queued/account counts, locals).",
		Explanation: "held = no view or index inconsistency, no lost re-injection and no race report on the executions of this run",
		Assumptions: []string{
			"the harness chain executes plain transfers only (nonce+1, balance-=value+21000*price); its StateDB contents are re-read and compared with the ground truth for every block built",
			"quiescence = a sentinel head event has been consumed by the pool's event loop and an empty promotion request has been served (VerifSync); no forced reset is used",
			"verdicts that differ from the documented admission/replacement rules without making a view inconsistent are reported as obs_verdict_deviation, not as violations (an admitted invalid transaction IS a violation)",
			"TxPool.TransactionsNumber (unlocked, no callers in the tree) is not exercised",
		},
		Require: map[string]int64{
			"ops": 50000, "tx_accepted": 20000, "admission_invalid_checked": 5000, "replaced_ok": 1000, "replace_at_boundary": 500,
			"op_reorg": 3000, "reorg_nonce_lowered": 1000, "reorg_pending_again_checked": 500, "batched_head_events": 5000,
			"feat_pending-full": 300, "feat_queue-full": 300, "feat_pool-full": 200, "accepted_then_dropped": 200,
			"conc_runs": 20, "conc_snapshots": 2000, "conc_head_changes": 500, "conc_submitted": 10000,
		},
	}
}
