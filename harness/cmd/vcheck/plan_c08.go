package main

func init() {
	plans["C08"] = Plan{
		Jobs:  []Job{{Workload: "C08.seq", Mode: "plain", QuickB: 16, ThoroughB: 16}},
		Level: "exploration",
		Rule: "PRNG-generated op sequences on a real StateDB in the calling patterns of the staking module (create, copy-modify updates, deposit/withdraw, status, rewards/settle, expel/recover, delegation +/-, withdraw records) interleaved with account ops, snapshots/reverts, Finalise/IntermediateRoot, Copy, Commit+reopen; after EVERY step the statistics per role and kind, the token/stake sums, stake=token/unit, the index (GetValidatorsForUpdate; after reopen also GetValidators and the NewVldReader look-back reader) and the two-sided delegation links are recomputed from the records and compared. The chain-level run of the same monitor is part of C06/C07. distinct_nontrivial = distinct (validators, delegations bucket, reverted?, reopened?) signatures.",
		Explanation: "held = no disagreement between maintained aggregates/indexes/links and the records on any step of this run",
		Assumptions: []string{"existing validators = addresses of the harness' validator key universe for which GetValidatorByMainAddr is non-nil", "objects handed to UpdateValidator are not mutated afterwards by the harness (clean copy-modify)"},
		Require:     map[string]int64{"checks": 50000, "reverts": 2000, "reopens": 2000, "lookback_readers": 2000, "max_validators": 4, "max_delegations": 4},
	}
}
