package main

func init() {
	plans["C08"] = Plan{
		Jobs: []Job{{Workload: "C08.seq", Mode: "plain", QuickB: 16, ThoroughB: 16},
			{Workload: "C08.chain", Mode: "plain", QuickB: 16, ThoroughB: 16}},
		Level: "exploration",
		Rule: "PRNG-generated op sequences on a real StateDB in the calling patterns of the staking module (create, copy-modify updates, deposit/withdraw, status, rewards/settle, expel/recover, delegation +/-, withdraw records) interleaved with account ops, snapshots/reverts, Finalise/IntermediateRoot, Copy, Commit+reopen; after EVERY step the statistics per role and kind, the token/stake sums, stake=token/unit, the index (GetValidatorsForUpdate; after reopen also GetValidators and the NewVldReader look-back reader) and the two-sided delegation links are recomputed from the records and compared. Second job (C08.chain): the same monitor after every block of generated chains on which the REAL staking module changes the validators (staking transactions, take-effect handlers at period ends incl. forced-offline and expel paths, rewards, inactivity slashing) - builder post state, importer head state and the look-back reader; the monitor also rides on every C06/C07 chain. distinct_nontrivial = distinct (validators, delegations bucket, reverted?, reopened?) signatures.",
		Explanation: "held = no disagreement between maintained aggregates/indexes/links and the records on any step of this run",
		Assumptions: []string{"existing validators = addresses of the harness' validator key universe for which GetValidatorByMainAddr is non-nil", "objects handed to UpdateValidator are not mutated afterwards by the harness (clean copy-modify)"},
		Require:     map[string]int64{"checks": 50000, "reverts": 2000, "reopens": 2000, "lookback_readers": 2000, "max_validators": 4, "max_delegations": 4, "c08_block_checks": 2000, "ev_delegation_sub_effects": 20, "ev_validator_withdraw_effects": 10},
	}
}
