// Package chaingen generates hostile but executable chains for the block-level properties
// (C06 determinism / builder-importer agreement, C07 conservation, C08 attached invariants):
// PRNG-driven transactions of every kind on top of env.Keyring, genesis presets, proposer
// schedules with deliberately silent chamber validators, forged double-sign evidences, and a
// two-node runner (builder A with the transcribed miner, importer B with InsertChain).
package chaingen

import (
	"crypto/ecdsa"
	"fmt"
	"math/big"
	"math/rand"

	"verif/env"
	"verif/mon"

	"github.com/youchainhq/go-youchain/common"
	"github.com/youchainhq/go-youchain/core/state"
	"github.com/youchainhq/go-youchain/core/types"
	"github.com/youchainhq/go-youchain/crypto"
	"github.com/youchainhq/go-youchain/params"
)

// Rates are the commission / risk-obligation rates the property quantifies over.
var Rates = []uint16{0, 1, 5000, 9999, 10000}

// Scenario is a genesis preset plus the knobs of the workload.
type Scenario struct {
	Name      string
	Vals      []env.ValSpec
	Proposers []int // validator indexes that propose blocks (index 0 of this list is the anchor: never taken offline by the generator)
	Anchors   map[int]bool
	Users     int
	Pool      *big.Int
	Blocks    int
	Limits    bool // bias towards the per-delegator / per-validator delegation limits
	Evidence  bool // forge double-sign evidences with positive penalties
	ZeroSlash bool // forge a double-sign evidence against a validator whose 2% penalty rounds to zero
	Busy      int  // percentage of big blocks
	// NegRecord lets the generator submit the sequence "validator withdraw/deposit, then a larger
	// delegation sub to the same validator in the same period", which drives the validator-total
	// pending record negative (a known way to wreck the block; most chains avoid it to get further).
	NegRecord bool
	// RecklessEvidence lets double-sign evidence hit validators without self stake.
	RecklessEvidence bool
}

func dust(r *rand.Rand) *big.Int {
	switch r.Intn(3) {
	case 0:
		return new(big.Int)
	case 1:
		return big.NewInt(int64(1 + r.Intn(1000)))
	}
	return new(big.Int).Rand(r, params.StakeUint)
}

func youPlus(r *rand.Rand, lo, hi int64) *big.Int {
	v := env.YOU(lo + r.Int63n(hi-lo+1))
	return v.Add(v, dust(r))
}

// PickScenario draws a scenario.
func PickScenario(r *rand.Rand, blocks int) *Scenario {
	sc := &Scenario{Users: 14, Blocks: blocks, Anchors: map[int]bool{}, Busy: 10}
	on, off := params.ValidatorOnline, params.ValidatorOffline
	switch r.Intn(4) {
	case 0:
		sc.Name = "mixed5"
		sc.Vals = []env.ValSpec{
			{Role: params.RoleChancellor, Status: on, Tokens: youPlus(r, 1500, 6000)},
			{Role: params.RoleSenator, Status: on, Tokens: youPlus(r, 600, 2000)}, // silent: inactivity slashing
			{Role: params.RoleHouse, Status: on, Tokens: youPlus(r, 120, 900)},    // anchor house: forced settlement
			{Role: params.RoleHouse, Status: on, Tokens: youPlus(r, 100, 400)},
			{Role: params.RoleSenator, Status: off, Tokens: youPlus(r, 500, 900)},
		}
		sc.Proposers = []int{0, 3}
		sc.Anchors[0], sc.Anchors[2] = true, true
	case 1:
		sc.Name = "house3"
		sc.Vals = []env.ValSpec{
			{Role: params.RoleSenator, Status: on, Tokens: youPlus(r, 500, 1500)},
			{Role: params.RoleHouse, Status: on, Tokens: youPlus(r, 100, 300)},
			{Role: params.RoleHouse, Status: on, Tokens: youPlus(r, 100, 5000)},
		}
		sc.Proposers = []int{0, 2}
		sc.Anchors[0], sc.Anchors[1] = true, true
	case 2:
		sc.Name = "six"
		sc.Vals = []env.ValSpec{
			{Role: params.RoleChancellor, Status: on, Tokens: youPlus(r, 1000, 3000)},
			{Role: params.RoleChancellor, Status: on, Tokens: youPlus(r, 1000, 9000)}, // silent
			{Role: params.RoleSenator, Status: on, Tokens: youPlus(r, 500, 800)},
			{Role: params.RoleSenator, Status: off, Tokens: youPlus(r, 500, 800)},
			{Role: params.RoleHouse, Status: on, Tokens: youPlus(r, 100, 200)},
			{Role: params.RoleHouse, Status: off, Tokens: youPlus(r, 1, 200)},
		}
		sc.Proposers = []int{0, 2, 4}
		sc.Anchors[0], sc.Anchors[4] = true, true
	case 3:
		sc.Name = "limits4"
		sc.Vals = []env.ValSpec{
			{Role: params.RoleSenator, Status: on, Tokens: youPlus(r, 500, 1500)},
			{Role: params.RoleHouse, Status: on, Tokens: youPlus(r, 100, 300)},
			{Role: params.RoleHouse, Status: on, Tokens: youPlus(r, 100, 300)}, // the hub: everybody delegates to it
			{Role: params.RoleChancellor, Status: on, Tokens: youPlus(r, 1000, 1200)},
		}
		sc.Proposers = []int{0, 1}
		sc.Anchors[0], sc.Anchors[1] = true, true
		sc.Limits = true
		sc.Users = 26
	}
	for i := range sc.Vals {
		sc.Vals[i].Operator = i
	}
	switch r.Intn(3) {
	case 0:
		sc.Pool = new(big.Int)
	case 1:
		sc.Pool = youPlus(r, 50, 400) // runs dry during the chain
	default:
		sc.Pool = env.YOU(1000000)
	}
	sc.Evidence = r.Intn(2) == 0
	sc.NegRecord = r.Intn(5) == 0
	sc.RecklessEvidence = r.Intn(4) == 0
	if r.Intn(5) == 0 {
		sc.Busy = 30
	}
	return sc
}

// Config returns the genesis configuration of the scenario.
func (sc *Scenario) Config(keys env.Keyring) env.Config {
	return env.Config{Keys: keys, Vals: sc.Vals, Users: sc.Users, UserBalance: env.YOU(2000000), RewardsPool: sc.Pool}
}

// TxInfo is a generated transaction with the generator's ground truth about it.
type TxInfo struct {
	Tx      *types.Transaction
	Kind    string // transfer | evm.deploy.<k> | evm.call.<k> | stk.<action>
	Variant string // "valid" or the reason it is meant to fail / be skipped
	From    common.Address
	To      *common.Address
	// Detain is the value a SUCCESSFUL staking activation tx (create / deposit / delegation add)
	// takes out of the sender's account until the end of the staking period.
	Detain *big.Int
	// Plain is set for value transfers to code-less accounts: value moved when included.
	Plain bool
}

// World is the generator's knowledge.
type World struct {
	R      *rand.Rand
	Keys   env.Keyring
	Sc     *Scenario
	Signer types.Signer
	YP     *params.YouParams
	U      *mon.Universe

	userAddrs  []common.Address
	userKeys   []*ecdsa.PrivateKey
	valAddrs   map[int]common.Address
	userIdx    map[common.Address]int
	nonces     map[common.Address]uint64
	contracts  []Deployed
	valKey     map[common.Address]int // validator main address -> key index
	nextVal    int
	lastNewVal int
	hub        common.Address
	subbed     map[common.Address]*big.Int
	subbedAt   *state.StateDB
	touched    map[common.Address]bool // validators with a withdraw/deposit generated in the current block
	fresh      int
}

func NewWorld(r *rand.Rand, keys env.Keyring, sc *Scenario) *World {
	env.Init()
	yp := params.Versions[params.YouV5]
	w := &World{R: r, Keys: keys, Sc: sc, Signer: types.MakeSigner(nil), YP: &yp, U: &mon.Universe{},
		userIdx: map[common.Address]int{}, nonces: map[common.Address]uint64{}, valKey: map[common.Address]int{}}
	w.valAddrs = map[int]common.Address{}
	for i := 0; i < sc.Users; i++ {
		k := keys.UserKey(i)
		a := crypto.PubkeyToAddress(k.PublicKey)
		w.userKeys = append(w.userKeys, k)
		w.userAddrs = append(w.userAddrs, a)
		w.userIdx[a] = i
		w.U.AddAddr(a)
	}
	for i := range sc.Vals {
		a := w.VA(i)
		w.valKey[a] = i
		w.U.Vals = append(w.U.Vals, a)
		w.U.AddAddr(a)
	}
	w.nextVal = len(sc.Vals)
	w.lastNewVal = -1
	w.U.AddAddr(yp.RewardsPoolAddress)
	w.U.AddAddr(yp.PenaltyTo)
	w.U.AddAddr(params.StakingModuleAddress)
	for i := 0; i < 8; i++ {
		w.U.Slots = append(w.U.Slots, common.BigToHash(big.NewInt(int64(i))))
	}
	if sc.Limits {
		w.hub = w.VA(2)
	}
	return w
}

// UA is the address of user i, VA the main address of validator key k (cached).
func (w *World) UA(i int) common.Address { return w.userAddrs[i] }

func (w *World) VA(k int) common.Address {
	if a, ok := w.valAddrs[k]; ok {
		return a
	}
	a := w.Keys.ValAddr(k)
	w.valAddrs[k] = a
	return a
}

func (w *World) freshAddr() common.Address {
	w.fresh++
	a := common.BytesToAddress(crypto.Keccak256([]byte(fmt.Sprintf("fresh-%d-%d", w.Keys.Seed, w.fresh)))[12:])
	w.U.AddAddr(a)
	return a
}

func (w *World) newValKey() int {
	k := w.nextVal
	w.nextVal++
	a := w.VA(k)
	w.valKey[a] = k
	w.U.Vals = append(w.U.Vals, a)
	w.U.AddAddr(a)
	w.lastNewVal = k
	return k
}

// ValIndex returns the key index of a validator main address (-1 if unknown).
func (w *World) ValIndex(a common.Address) int {
	if k, ok := w.valKey[a]; ok {
		return k
	}
	return -1
}

func (w *World) isAnchor(v *state.Validator) bool {
	k, ok := w.valKey[v.MainAddress()]
	return ok && w.Sc.Anchors[k]
}

// Proposer picks the coinbase of the next block among the scenario's proposers that still exist.
func (w *World) Proposer(st *state.StateDB) common.Address {
	var alive []common.Address
	for _, i := range w.Sc.Proposers {
		a := w.VA(i)
		if st.GetValidatorByMainAddr(a) != nil {
			alive = append(alive, a)
		}
	}
	if len(alive) == 0 {
		return w.VA(w.Sc.Proposers[0])
	}
	// the anchor proposes two thirds of the blocks
	if w.R.Intn(3) != 0 {
		return alive[0]
	}
	return alive[w.R.Intn(len(alive))]
}

func (w *World) gasPrice() *big.Int {
	switch x := w.R.Intn(20); {
	case x < 8:
		return big.NewInt(1000000000)
	case x < 11:
		return big.NewInt(1)
	case x < 13:
		return new(big.Int)
	case x < 18:
		return big.NewInt(1 + w.R.Int63n(100000000000))
	default:
		return big.NewInt(100000000000000) // a handful of these lift the block reward over the subsidy threshold
	}
}

func (w *World) nonce(a common.Address, consume bool) uint64 {
	n := w.nonces[a]
	if consume {
		w.nonces[a] = n + 1
	}
	return n
}

func (w *World) sign(user int, to *common.Address, value *big.Int, gas uint64, price *big.Int, data []byte, nonce uint64) *types.Transaction {
	var tx *types.Transaction
	if value == nil {
		value = new(big.Int)
	}
	if to == nil {
		tx = types.NewContractCreation(nonce, value, gas, price, data)
	} else {
		tx = types.NewTransaction(nonce, *to, value, gas, price, data)
	}
	stx, err := types.SignTx(tx, w.Signer, w.userKeys[user])
	if err != nil {
		panic(err)
	}
	return stx
}

func (w *World) user() int { return w.R.Intn(w.Sc.Users) }

func (w *World) otherUser(not int) int {
	for {
		u := w.user()
		if u != not || w.Sc.Users == 1 {
			return u
		}
	}
}

// operatorOf returns the user index operating v, or -1.
func (w *World) operatorOf(v *state.Validator) int {
	if i, ok := w.userIdx[v.OperatorAddress]; ok {
		return i
	}
	return -1
}

func (w *World) rate() uint16 { return Rates[w.R.Intn(len(Rates))] }
