package chaingen

import (
	"encoding/binary"
	"fmt"
	"math/big"
	"math/rand"

	"verif/env"
	"verif/mon"

	"github.com/youchainhq/go-youchain/common"
	"github.com/youchainhq/go-youchain/core"
	"github.com/youchainhq/go-youchain/core/state"
	"github.com/youchainhq/go-youchain/staking"
)

// ForgeDoubleSign builds a genuine double-sign evidence (two BLS-signed votes for different hashes
// in the same round and round index) of validator key k about the chain's current head round, which
// is the round the builder of the next block accepts evidences for.
func ForgeDoubleSign(chain *core.BlockChain, keys env.Keyring, k int, main common.Address, r *rand.Rand) (staking.Evidence, error) {
	round := chain.CurrentHeader().Number.Uint64()
	rd, err := chain.LookBackVldReaderForRound(round, false)
	if err != nil {
		return staking.Evidence{}, err
	}
	idx, ok := rd.GetValidators().GetIndex(main)
	if !ok {
		return staking.Evidence{}, fmt.Errorf("validator %x not in the look-back set of round %d", main[:4], round)
	}
	ri := uint32(1 + r.Intn(3))
	buf := make([]byte, 4)
	binary.BigEndian.PutUint32(buf, ri)
	roundbuf := append(new(big.Int).SetUint64(round).Bytes(), buf...)
	sk := keys.ValBls(k)
	ev := staking.EvidenceDoubleSignV5{Round: round, RoundIndex: ri, SignerIdx: uint32(idx), VoteType: staking.Prevote}
	for i := 0; i < 2; i++ {
		var h common.Hash
		r.Read(h[:])
		sig := sk.Sign(append(h.Bytes(), roundbuf...)).Compress()
		ev.Signs = append(ev.Signs, &staking.SignInfo{Hash: h, Sign: append([]byte{}, sig[:]...)})
	}
	return staking.NewEvidence(ev), nil
}

// PostEvidence hands the evidence to the node's staking module the way the consensus engine does
// (event mux) and returns once the module has stored it: the module handles its events one at a
// time, so when a second (inert) event has been taken, the first has been handled completely.
func PostEvidence(n *env.Node, ev staking.Evidence) {
	n.Mux.Post(ev)
	n.Mux.Post(core.InsertBlockEvent{})
}

// RandomEvidenceTargets occasionally accuses a non-anchor validator whose 2 % penalty is positive.
func RandomEvidenceTargets(r *Run, st *state.StateDB, n uint64) []common.Address {
	if n < 20 || r.R.Intn(24) != 0 {
		return nil
	}
	v := r.W.pickVal(st, func(v *state.Validator) bool {
		pen := new(big.Int).Mul(v.Token, big.NewInt(2))
		if r.W.isAnchor(v) || r.W.ValIndex(v.MainAddress()) < 0 || pen.Cmp(big.NewInt(100)) < 0 {
			return false
		}
		// most chains accuse only validators with at least one unit of self stake: the penalty is then
		// certainly positive. Accusing a validator without self stake can wreck the block in two known
		// ways (stake 0: division by zero; nothing collectable: builder expels without SlashData), so
		// only the reckless chains do it.
		return r.Sc.RecklessEvidence || v.SelfStake.Sign() > 0
	})
	if v == nil {
		return nil
	}
	return []common.Address{v.MainAddress()}
}

// EvidenceClass recognises, by observation, the one anticipated cause of a builder/importer
// divergence: evidence was handed to the builder, the builder changed the accused validator's record,
// but the header carries no SlashData for an importer to replay.
func EvidenceClass(r *Run, b *BlockCtx, extra map[string]interface{}) string {
	if len(b.EvidenceVals) == 0 || len(b.Block.Header().SlashData) != 0 {
		return ""
	}
	pst, err := r.A.Chain.StateAt(b.Parent.Root(), b.Parent.ValRoot(), b.Parent.Header().StakingRoot)
	if err != nil {
		return ""
	}
	for _, t := range b.EvidenceVals {
		before, after := pst.GetValidatorByMainAddr(t), b.Res.State.GetValidatorByMainAddr(t)
		if before != nil && after != nil && (before.Expelled != after.Expelled || before.ExpelExpired != after.ExpelExpired || before.Status != after.Status) {
			extra["accused_before"] = mon.ValString(before)
			extra["accused_after_on_builder"] = mon.ValString(after)
			extra["header_slashdata"] = "empty"
			return "evidence-applied-by-builder-but-absent-from-slashdata"
		}
	}
	return ""
}
