package chaingen

import (
	"encoding/binary"
	"fmt"
	"math/big"
	"math/rand"

	"verif/env"

	"github.com/youchainhq/go-youchain/common"
	"github.com/youchainhq/go-youchain/core"
	"github.com/youchainhq/go-youchain/core/state"
	"github.com/youchainhq/go-youchain/staking"
)

// ForgeDoubleSign builds a genuine double-sign evidence (two BLS-signed votes for different hashes
// in the same round and round index) of validator key k about the chain's current head round, which
// is the round the builder of the next block accepts evidences for.
func ForgeDoubleSign(chain *core.BlockChain, keys env.Keyring, k int, main common.Address, r *rand.Rand) (staking.Evidence, error) {
	round := chain.CurrentHeader().Number.Uint64()
	rd, err := chain.LookBackVldReaderForRound(round, false)
	if err != nil {
		return staking.Evidence{}, err
	}
	idx, ok := rd.GetValidators().GetIndex(main)
	if !ok {
		return staking.Evidence{}, fmt.Errorf("validator %x not in the look-back set of round %d", main[:4], round)
	}
	ri := uint32(1 + r.Intn(3))
	buf := make([]byte, 4)
	binary.BigEndian.PutUint32(buf, ri)
	roundbuf := append(new(big.Int).SetUint64(round).Bytes(), buf...)
	sk := keys.ValBls(k)
	ev := staking.EvidenceDoubleSignV5{Round: round, RoundIndex: ri, SignerIdx: uint32(idx), VoteType: staking.Prevote}
	for i := 0; i < 2; i++ {
		var h common.Hash
		r.Read(h[:])
		sig := sk.Sign(append(h.Bytes(), roundbuf...)).Compress()
		ev.Signs = append(ev.Signs, &staking.SignInfo{Hash: h, Sign: append([]byte{}, sig[:]...)})
	}
	return staking.NewEvidence(ev), nil
}

// PostEvidence hands the evidence to the node's staking module the way the consensus engine does
// (event mux) and returns once the module has stored it: the module handles its events one at a
// time, so when a second (inert) event has been taken, the first has been handled completely.
func PostEvidence(n *env.Node, ev staking.Evidence) {
	n.Mux.Post(ev)
	n.Mux.Post(core.InsertBlockEvent{})
}

// RandomEvidenceTargets occasionally accuses a non-anchor validator whose 2 % penalty is positive.
func RandomEvidenceTargets(r *Run, st *state.StateDB, n uint64) []common.Address {
	if n < 20 || r.R.Intn(24) != 0 {
		return nil
	}
	v := r.W.pickVal(st, func(v *state.Validator) bool {
		pen := new(big.Int).Mul(v.Token, big.NewInt(2))
		return !r.W.isAnchor(v) && r.W.ValIndex(v.MainAddress()) >= 0 && pen.Cmp(big.NewInt(100)) >= 0
	})
	if v == nil {
		return nil
	}
	return []common.Address{v.MainAddress()}
}
