package chaingen

import (
	"encoding/binary"
	"fmt"
	"math/big"
	"math/rand"

	"verif/env"
	"verif/mon"

	"github.com/youchainhq/go-youchain/common"
	"github.com/youchainhq/go-youchain/core"
	"github.com/youchainhq/go-youchain/core/state"
	"github.com/youchainhq/go-youchain/params"
	"github.com/youchainhq/go-youchain/rlp"
	"github.com/youchainhq/go-youchain/staking"
)

// ForgeDoubleSign builds a genuine double-sign evidence (two BLS-signed votes for different hashes
// in the same round and round index) of validator key k about the chain's current head round, which
// is the round the builder of the next block accepts evidences for.
func ForgeDoubleSign(chain *core.BlockChain, keys env.Keyring, k int, main common.Address, r *rand.Rand) (staking.Evidence, error) {
	round := chain.CurrentHeader().Number.Uint64()
	rd, err := chain.LookBackVldReaderForRound(round, false)
	if err != nil {
		return staking.Evidence{}, err
	}
	idx, ok := rd.GetValidators().GetIndex(main)
	if !ok {
		return staking.Evidence{}, fmt.Errorf("validator %x not in the look-back set of round %d", main[:4], round)
	}
	ri := uint32(1 + r.Intn(3))
	buf := make([]byte, 4)
	binary.BigEndian.PutUint32(buf, ri)
	roundbuf := append(new(big.Int).SetUint64(round).Bytes(), buf...)
	sk := keys.ValBls(k)
	ev := staking.EvidenceDoubleSignV5{Round: round, RoundIndex: ri, SignerIdx: uint32(idx), VoteType: staking.Prevote}
	for i := 0; i < 2; i++ {
		var h common.Hash
		r.Read(h[:])
		sig := sk.Sign(append(h.Bytes(), roundbuf...)).Compress()
		ev.Signs = append(ev.Signs, &staking.SignInfo{Hash: h, Sign: append([]byte{}, sig[:]...)})
	}
	return staking.NewEvidence(ev), nil
}

// PostEvidence hands the evidence to the node's staking module the way the consensus engine does
// (event mux) and returns once the module has stored it: the module handles its events one at a
// time, so when a second (inert) event has been taken, the first has been handled completely.
func PostEvidence(n *env.Node, ev staking.Evidence) {
	n.Mux.Post(ev)
	n.Mux.Post(core.InsertBlockEvent{})
}

// RandomEvidenceTargets occasionally (about every 10th block after block 20) accuses a non-anchor
// validator whose 2 % penalty is positive. Two times out of three it prefers a validator whose
// penalty would be covered completely by its own unfinished withdraw records (takePenalty takes from
// those first) and whose delegators owe nothing: then the validator's token does not move at all and
// only the record, the penalty account and SlashData tell that the evidence was confirmed.
func RandomEvidenceTargets(r *Run, st *state.StateDB, n uint64) []common.Address {
	if n < 20 || r.R.Intn(10) != 0 {
		return nil
	}
	eligible := func(v *state.Validator) bool {
		pen := new(big.Int).Mul(v.Token, big.NewInt(2))
		if r.W.isAnchor(v) || r.W.ValIndex(v.MainAddress()) < 0 || pen.Cmp(big.NewInt(100)) < 0 || v.Expelled {
			return false
		}
		// most chains accuse only validators with at least one unit of self stake: the penalty is then
		// certainly positive. Accusing a validator without self stake can wreck the block in two known
		// ways (stake 0: division by zero; nothing collectable: builder expels without SlashData), so
		// only the reckless chains do it.
		return r.Sc.RecklessEvidence || v.SelfStake.Sign() > 0
	}
	var v *state.Validator
	if r.R.Intn(3) != 0 {
		// unfinished self-withdraw balance per validator
		pendingOut := map[common.Address]*big.Int{}
		for _, rec := range st.GetWithdrawQueue().Records {
			if rec.Finished == 0 && rec.Delegator == (common.Address{}) {
				if pendingOut[rec.Validator] == nil {
					pendingOut[rec.Validator] = new(big.Int)
				}
				pendingOut[rec.Validator].Add(pendingOut[rec.Validator], rec.FinalBalance)
			}
		}
		v = r.W.pickVal(st, func(v *state.Validator) bool {
			out := pendingOut[v.MainAddress()]
			if !eligible(v) || out == nil {
				return false
			}
			pen := new(big.Int).Div(new(big.Int).Mul(v.Token, big.NewInt(2)), big.NewInt(100))
			return out.Cmp(pen) >= 0 && (len(v.Delegations) == 0 || v.RiskObligation == params.CommissionRateBase)
		})
		if v != nil {
			r.C.Count("evidence_targets_with_covering_withdraw_record", 1)
			r.SigPart("evidence:covered-by-withdraw-record")
		}
	}
	if v == nil {
		v = r.W.pickVal(st, eligible)
	}
	if v == nil {
		return nil
	}
	out := []common.Address{v.MainAddress()}
	// every second time further validators equivocated in the same round: several evidences are
	// confirmed in ONE block, and they reach the proposer's pool in arbitrary (gossip) order
	if r.R.Intn(2) == 0 {
		for k := 0; k < 3; k++ {
			o := r.W.pickVal(st, func(x *state.Validator) bool {
				if !eligible(x) {
					return false
				}
				for _, a := range out {
					if a == x.MainAddress() {
						return false
					}
				}
				return true
			})
			if o == nil {
				break
			}
			out = append(out, o.MainAddress())
		}
		r.R.Shuffle(len(out), func(i, j int) { out[i], out[j] = out[j], out[i] })
		if len(out) > 1 {
			r.C.Count("blocks_with_several_evidences_posted", 1)
			r.SigPart("evidence:several-in-one-block")
		}
	}
	return out
}

// EvidenceClass recognises, by observation, a builder/importer divergence caused by evidence that
// was handed to the builder, changed the builder's state, but is not in header.SlashData for an
// importer to replay. Two classes, decided by whether the builder actually took something:
//
//	evidence-applied-by-builder-but-absent-from-slashdata  nothing was collectable (total penalty 0):
//	        the accused validator was only expelled
//	penalty-applied-by-builder-but-absent-from-slashdata   the validator's token, one of its unfinished
//	        withdraw records or the penalty account moved: a POSITIVE penalty was taken and still the
//	        evidence was not recorded as confirmed
func EvidenceClass(r *Run, b *BlockCtx, extra map[string]interface{}) string {
	if len(b.EvidenceVals) == 0 {
		return ""
	}
	// whom the builder recorded as penalised: one slashing log per confirmed evidence (an evidence is
	// put into header.SlashData exactly when its total penalty is positive, and then it is logged)
	confirmed := map[common.Address]bool{}
	slashTopic := common.StringToHash(staking.LogTopicSlashing)
	for _, rc := range b.Res.ModuleReceipts {
		for _, l := range rc.Logs {
			if len(l.Topics) > 0 && l.Topics[0] == slashTopic {
				var d staking.SlashDataV5
				if rlp.DecodeBytes(l.Data, &d) == nil {
					confirmed[d.MainAddress] = true
				}
			}
		}
	}
	if len(b.Block.Header().SlashData) == 0 {
		confirmed = map[common.Address]bool{}
	}
	pst, err := r.A.Chain.StateAt(b.Parent.Root(), b.Parent.ValRoot(), b.Parent.Header().StakingRoot)
	if err != nil {
		return ""
	}
	post := b.Res.State
	recKey := func(rec *state.WithdrawRecord) string {
		return fmt.Sprintf("%x/%d/%x", rec.Operator, rec.Nonce, rec.TxHash)
	}
	for _, t := range b.EvidenceVals {
		before, after := pst.GetValidatorByMainAddr(t), post.GetValidatorByMainAddr(t)
		if before == nil || confirmed[t] {
			continue
		}
		// (the accused may be gone after the block: a full withdrawal taking effect at a period end
		// deletes it; its withdraw records still tell whether something was taken)
		changed := after != nil && (before.Expelled != after.Expelled || before.ExpelExpired != after.ExpelExpired || before.Status != after.Status)
		var taken []string
		if after != nil && after.Token.Cmp(before.Token) < 0 && !b.PeriodEnd {
			taken = append(taken, fmt.Sprintf("validator token %v -> %v", before.Token, after.Token))
		}
		was := map[string]*big.Int{}
		for _, rec := range pst.GetWithdrawQueue().Records {
			if rec.Validator == t {
				was[recKey(rec)] = rec.FinalBalance
			}
		}
		for _, rec := range post.GetWithdrawQueue().Records {
			if old := was[recKey(rec)]; rec.Validator == t && old != nil && rec.FinalBalance.Cmp(old) < 0 {
				taken = append(taken, fmt.Sprintf("withdraw record (nonce %d) FinalBalance %v -> %v", rec.Nonce, old, rec.FinalBalance))
			}
		}
		if !changed && len(taken) == 0 {
			continue
		}
		extra["accused_before"] = mon.ValString(before)
		if after != nil {
			extra["accused_after_on_builder"] = mon.ValString(after)
		} else {
			extra["accused_after_on_builder"] = "deleted in this block"
		}
		extra["header_slashdata"] = fmt.Sprintf("%d bytes, %d other accused recorded", len(b.Block.Header().SlashData), len(confirmed))
		pa := r.W.YP.PenaltyTo
		extra["penalty_account_on_builder"] = fmt.Sprintf("%v -> %v", pst.GetBalance(pa), post.GetBalance(pa))
		if len(taken) > 0 {
			extra["taken_by_builder"] = taken
			return "penalty-applied-by-builder-but-absent-from-slashdata"
		}
		return "evidence-applied-by-builder-but-absent-from-slashdata"
	}
	return ""
}
