package chaingen

import (
	"fmt"
	"math/big"
	"math/rand"
	"regexp"
	"sort"
	"strings"

	"verif/build"
	"verif/env"
	"verif/kit"
	"verif/mon"

	"github.com/youchainhq/go-youchain/common"
	"github.com/youchainhq/go-youchain/core"
	"github.com/youchainhq/go-youchain/core/state"
	"github.com/youchainhq/go-youchain/core/types"
	"github.com/youchainhq/go-youchain/params"
	"github.com/youchainhq/go-youchain/staking"
)

// BlockCtx is everything known about one block of a run.
type BlockCtx struct {
	N         uint64
	Parent    *types.Block
	Offered   []TxInfo
	Res       *build.Result
	Block     *types.Block
	Included  []*TxInfo // aligned with Res.Txs
	PeriodEnd bool
	ImportErr error
	Evidence  []string
	// EvidenceVals are the validators evidence was posted against before this block was built.
	EvidenceVals []common.Address
}

// Monitor observes a run. Every callback returns false to stop the case (after a violation).
type Monitor interface {
	Start(r *Run) bool
	Hooks() *build.Hooks
	Built(r *Run, b *BlockCtx) bool    // built on A, A's head is still the parent
	Imported(r *Run, b *BlockCtx) bool // committed on A and offered to B (b.ImportErr)
	Finish(r *Run)
}

// Run is one generated chain on two nodes.
type Run struct {
	C       *kit.Ctx
	ID      string
	R       *rand.Rand
	W       *World
	Sc      *Scenario
	Genesis *core.Genesis
	A, B    *env.Node
	EngA    *env.NeutralEngine
	EngB    *env.NeutralEngine
	Builder *build.Builder
	Blocks  []*types.Block
	Freq    uint64
	// ScriptTx, when set, replaces the generator for the block (scripted mini-chains).
	Script func(r *Run, st *state.StateDB, n uint64) ([]TxInfo, bool)
	// EvidenceTargets, when set, chooses the validators to forge evidence against before block n.
	EvidenceTargets func(r *Run, st *state.StateDB, n uint64) []common.Address

	// SideImportAt: after these blocks a fresh node on its own branch is offered the whole chain in
	// one call (side-chain import path).
	SideImportAt map[uint64]bool

	// Scope, when set, restricts what this run reports: a failure whose class is out of scope
	// (the subject of another property's check, which runs the same chains) ends the case and is
	// counted, not reported.
	Scope func(class string) bool

	Periods    int
	txOutcomes map[string]int
	sigParts   map[string]bool
	stopped    bool
}

var numRe = regexp.MustCompile(`0x[0-9a-fA-F]+|[0-9a-fA-F]{8,}|\b\d+\b`)

// Normalise removes numbers and hashes from an error text so that it can serve as a class.
func Normalise(s string) string {
	s = numRe.ReplaceAllString(s, "N")
	s = strings.Join(strings.Fields(s), "-")
	if len(s) > 90 {
		s = s[:90]
	}
	return s
}

// NewRun builds genesis and both nodes.
func NewRun(c *kit.Ctx, id string, r *rand.Rand, sc *Scenario) (*Run, error) {
	keys := env.Keyring{Seed: r.Int63()}
	w := NewWorld(r, keys, sc)
	g := env.MakeGenesis(sc.Config(keys))
	run := &Run{C: c, ID: id, R: r, W: w, Sc: sc, Genesis: g, txOutcomes: map[string]int{}, sigParts: map[string]bool{}}
	anchor := w.VA(sc.Proposers[0])
	run.EngA, run.EngB = env.NewNeutralEngine(anchor), env.NewNeutralEngine(anchor)
	var err error
	if run.A, err = env.NewNode(g, run.EngA); err != nil {
		return nil, err
	}
	if run.B, err = env.NewNode(g, run.EngB); err != nil {
		run.A.Stop()
		return nil, err
	}
	run.Builder = build.New(run.A.Chain, run.EngA)
	run.Freq = w.YP.StakingTrieFrequency
	run.Blocks = []*types.Block{run.A.Chain.CurrentBlock()}
	// side-chain imports: one across at least two period ends (a record of one period, a transaction for the same pair in the next, its take-effect at the following end), one later (longer chains only)
	run.SideImportAt = map[uint64]bool{uint64(34 + r.Intn(40)): true} // at least two period ends (16 blocks each) inside
	if sc.Blocks > 120 && r.Intn(2) == 0 {
		// (bounded: a side import re-executes the whole chain so far and builds a branch of the same length)
		at := 60 + r.Intn(sc.Blocks-100)
		if at > 200 {
			at = 120 + at%80
		}
		run.SideImportAt[uint64(at)] = true
	}
	if c.Mode == "race" {
		run.SideImportAt = nil // the race build is an order of magnitude slower; the plain job covers it
	}
	return run, nil
}

func (r *Run) Close() {
	r.A.Stop()
	r.B.Stop()
}

// Violation reports and marks the case as to be stopped.
func (r *Run) Violation(class, msg string, witness interface{}) {
	r.stopped = true
	if r.Scope != nil && !r.Scope(class) {
		r.C.Count("chains_ended_by_out_of_scope_failure", 1)
		r.C.Note("out-of-scope failure ended a chain: " + class)
		return
	}
	r.C.Violation(class, msg, witness)
}

// Known reports a violation of a class after which the run can go on (the monitor has accounted
// for its effect exactly).
func (r *Run) Known(class, msg string, witness interface{}) {
	if r.Scope != nil && !r.Scope(class) {
		return
	}
	r.C.Violation(class, msg, witness)
}

// SigPart adds a feature to the case signature.
func (r *Run) SigPart(s string) { r.sigParts[s] = true }

// Witness describes block b compactly.
func (r *Run) Witness(b *BlockCtx, extra map[string]interface{}) map[string]interface{} {
	w := map[string]interface{}{"scenario": r.Sc.Name, "case": r.ID, "block": b.N, "period_end": b.PeriodEnd}
	if b.Block != nil {
		w["coinbase"] = fmt.Sprintf("validator #%d", r.W.ValIndex(b.Block.Coinbase()))
		w["hash"] = b.Block.Hash().Hex()
	}
	var txs []string
	for i, ti := range b.Included {
		st := "?"
		if b.Res != nil && i < len(b.Res.TxReceipts) {
			st = fmt.Sprint(b.Res.TxReceipts[i].Status)
		}
		txs = append(txs, fmt.Sprintf("%s[%s] from user %d status=%s", ti.Kind, ti.Variant, r.W.userIdx[ti.From], st))
	}
	w["txs"] = txs
	if len(b.Evidence) > 0 {
		w["evidence"] = b.Evidence
	}
	for k, v := range extra {
		w[k] = v
	}
	return w
}

// Execute runs the chain under the monitors and returns the case signature.
func (r *Run) Execute(mons ...Monitor) string {
	var hooks []*build.Hooks
	for _, m := range mons {
		if h := m.Hooks(); h != nil {
			hooks = append(hooks, h)
		}
	}
	if len(hooks) > 0 {
		r.Builder.Hooks = &build.Hooks{
			BeforeTx: func(i int, tx *types.Transaction, st *state.StateDB) {
				for _, h := range hooks {
					if h.BeforeTx != nil {
						h.BeforeTx(i, tx, st)
					}
				}
			},
			AfterTx: func(i int, tx *types.Transaction, st *state.StateDB, rc *types.Receipt, err error, g uint64) {
				for _, h := range hooks {
					if h.AfterTx != nil {
						h.AfterTx(i, tx, st, rc, err, g)
					}
				}
			},
			AfterEndBlock: func(st *state.StateDB, hd *types.Header) {
				for _, h := range hooks {
					if h.AfterEndBlock != nil {
						h.AfterEndBlock(st, hd)
					}
				}
			},
		}
	}
	ok := true
	for _, m := range mons {
		ok = ok && m.Start(r)
	}
	for n := uint64(1); ok && !r.stopped && n <= uint64(r.Sc.Blocks); n++ {
		ok = r.step(n, mons)
	}
	for _, m := range mons {
		m.Finish(r)
	}
	r.C.Count("periods_crossed", r.Periods)
	// how close the delegation limits were approached (final state of the builder)
	if st, err := r.A.Chain.State(); err == nil {
		for _, v := range st.GetValidators().List() {
			r.C.Max("max_delegations_per_validator", int64(len(v.Delegations)))
		}
		for i := 0; i < r.Sc.Users; i++ {
			r.C.Max("max_delegations_per_delegator", int64(st.GetCountOfDelegateTo(r.W.UA(i))))
		}
		r.C.Max("max_validators", int64(st.GetValidators().Len()))
	}
	keys := make([]string, 0, len(r.txOutcomes))
	for k, v := range r.txOutcomes {
		r.C.Count(k, v)
		keys = append(keys, k)
	}
	var parts []string
	for k := range r.sigParts {
		parts = append(parts, k)
	}
	sort.Strings(parts)
	return r.Sc.Name + " " + strings.Join(parts, ",")
}

func (r *Run) step(n uint64, mons []Monitor) bool {
	a := r.A.Chain
	parent := a.CurrentBlock()
	st, err := a.State()
	if err != nil {
		r.Violation("harness-state-unavailable", err.Error(), nil)
		return false
	}
	b := &BlockCtx{N: n, Parent: parent, PeriodEnd: (n+1)%r.Freq == 0}
	scripted := false
	if r.Script != nil {
		b.Offered, scripted = r.Script(r, st, n)
	}
	if !scripted {
		b.Offered = r.W.GenBlock(st, n)
	}
	cb := r.W.Proposer(st)
	r.EngA.Coinbase, r.EngB.Coinbase = cb, cb

	if r.EvidenceTargets != nil {
		for _, target := range r.EvidenceTargets(r, st, n) {
			k := r.W.ValIndex(target)
			ev, err := ForgeDoubleSign(a, r.W.Keys, k, target, r.R)
			if err != nil {
				continue
			}
			PostEvidence(r.A, ev)
			v := st.GetValidatorByMainAddr(target)
			b.Evidence = append(b.Evidence, fmt.Sprintf("double-sign of validator #%d (token %v, role %d, status %d) in round %d", k, v.Token, v.Role, v.Status, n-1))
			b.EvidenceVals = append(b.EvidenceVals, target)
			r.C.Count("evidences_posted", 1)
		}
	}

	txs := make([]*types.Transaction, len(b.Offered))
	byHash := map[common.Hash]*TxInfo{}
	for i := range b.Offered {
		txs[i] = b.Offered[i].Tx
		byHash[txs[i].Hash()] = &b.Offered[i]
	}
	ts := parent.Time() + 1 + uint64(r.R.Intn(5))
	var res *build.Result
	if len(b.EvidenceVals) > 0 {
		// a panic while the builder digests forged evidence is classified here (everything else is
		// left to kill the process and be reported by the orchestrator)
		if p := kit.Guard(func() { res, err = r.Builder.Build(ts, build.NewOrderedTxs(r.W.Signer, txs)) }); p != nil {
			class := "builder-panic-on-evidence:" + Normalise(fmt.Sprint(p))
			for _, t := range b.EvidenceVals {
				if v := st.GetValidatorByMainAddr(t); v != nil && v.Stake.Sign() == 0 && strings.Contains(fmt.Sprint(p), "division by zero") {
					class = "doublesign-evidence-against-zero-stake-validator:division-by-zero"
				}
			}
			r.Violation(class, fmt.Sprintf("block %d: the block builder panics in EndBlock while processing a double-sign evidence: %v", n, p), r.Witness(b, nil))
			return false
		}
	} else {
		res, err = r.Builder.Build(ts, build.NewOrderedTxs(r.W.Signer, txs))
	}
	if err != nil {
		r.Violation("builder-failed:"+Normalise(err.Error()), fmt.Sprintf("block %d: %v", n, err), r.Witness(b, nil))
		return false
	}
	b.Res, b.Block = res, res.Block
	for _, tx := range res.Txs {
		b.Included = append(b.Included, byHash[tx.Hash()])
	}
	r.C.Count("blocks_built", 1)
	r.C.Count("txs_offered", len(b.Offered))
	r.C.Count("txs_included", len(res.Txs))
	for i, ti := range b.Included {
		o := "ok"
		if res.TxReceipts[i].Status != types.ReceiptStatusSuccessful {
			o = "failed"
		}
		r.txOutcomes["tx_"+ti.Kind+"_"+o]++
		r.SigPart(ti.Kind + ":" + o)
	}
	for _, s := range res.Skipped {
		r.txOutcomes["skipped_"+s.Action+"_"+Normalise(s.Err.Error())]++
		r.SigPart("skip:" + Normalise(s.Err.Error()))
	}
	if res.StoppedForGas {
		r.C.Count("blocks_full", 1)
	}
	r.countModuleLogs(res)
	if !r.checkBlockhashLogs(b, res) {
		return false
	}
	if dbErr := res.State.Error(); dbErr != nil {
		class := "builder-state-db-error:" + Normalise(dbErr.Error())
		msg := fmt.Sprintf("block %d: the builder's post state carries a database error: %v", n, dbErr)
		if strings.Contains(dbErr.Error(), "cannot encode negative") {
			// StateDB.updateStakingTrie returns at the first record it cannot encode: the records
			// visited before it (Go map order) are written, the others are not
			class = "negative-staking-record-aborts-trie-flush"
			msg = fmt.Sprintf("block %d: a pending staking record with a negative FinalValue cannot be RLP-encoded; updateStakingTrie stops at it, so which of the block's dirty records reach the staking trie depends on map iteration order (staking root differs between executions) and Commit fails with: %v", n, dbErr)
		}
		r.Violation(class, msg, r.Witness(b, map[string]interface{}{"negative_records": r.negativeRecords(res.State)}))
		return false
	}
	if len(res.Block.Header().SlashData) > 0 {
		r.C.Count("blocks_with_slashdata", 1)
		r.SigPart("slashdata")
	}
	for _, m := range mons {
		if !m.Built(r, b) || r.stopped {
			return false
		}
	}
	if err := r.Builder.Commit(res); err != nil {
		r.Violation("builder-commit-failed:"+Normalise(err.Error()), fmt.Sprintf("block %d: %v", n, err), r.Witness(b, nil))
		return false
	}
	r.Blocks = append(r.Blocks, res.Block)
	b.ImportErr = r.B.Chain.InsertChain(types.Blocks{res.Block})
	if b.ImportErr == nil {
		r.C.Count("blocks_imported", 1)
	}
	if b.PeriodEnd {
		r.Periods++
	}
	for _, m := range mons {
		if !m.Imported(r, b) || r.stopped {
			return false
		}
	}
	if b.ImportErr == nil && r.SideImportAt[n] && !r.sideImport(b) {
		return false
	}
	return true
}

// sideImport: a third node that sits on a branch of its own (n-1 blocks without transactions, built
// by its own honest builder) is offered the whole chain built so far in ONE InsertChain call. The
// chain is longer, so the blocks go through the side-chain path: verifyAllSideChainBlocks executes
// all of them on ONE StateDB carried from block to block (across staking-period ends), then reorg.
// Every block was accepted by the block-by-block importer; this path must accept them unchanged too.
func (r *Run) sideImport(b *BlockCtx) bool {
	n := b.N
	eng := env.NewNeutralEngine(r.W.VA(r.Sc.Proposers[0]))
	nd, err := env.NewNode(r.Genesis, eng)
	if err != nil {
		return true
	}
	defer nd.Stop()
	own := build.New(nd.Chain, eng)
	own.Extra = []byte("own branch")
	for k := uint64(1); k < n; k++ {
		p := nd.Chain.CurrentBlock()
		res, err := own.Build(p.Time()+1, build.NewOrderedTxs(r.W.Signer, nil))
		if err == nil {
			err = own.Commit(res)
		}
		if err != nil {
			r.C.Count("side_import_own_branch_failed", 1)
			return true // (its own branch: builder failures are judged on the main run)
		}
	}
	var ierr error
	if p := kit.Guard(func() { ierr = nd.Chain.InsertChain(types.Blocks(r.Blocks[1:])) }); p != nil {
		r.Violation("side-chain-import-panic", fmt.Sprintf("a node on its own branch of %d blocks panics when it is offered the %d blocks of the chain in one call: %v", n-1, n, p), r.Witness(b, nil))
		return false
	}
	r.C.Count("side_chain_imports", 1)
	r.C.Count("side_chain_import_blocks", int(n))
	r.SigPart("side-import")
	if ierr != nil || nd.Chain.CurrentBlock().Hash() != b.Block.Hash() {
		r.Violation("side-chain-import-rejected:"+Normalise(fmt.Sprint(ierr)), fmt.Sprintf("blocks 1..%d, each accepted by the block-by-block importer, are offered in one call to a node sitting on its own branch of %d blocks (side-chain path: all blocks executed on one StateDB, then reorg): InsertChain -> %v, head #%d", n, n-1, ierr, nd.Chain.CurrentBlock().NumberU64()), r.Witness(b, nil))
		return false
	}
	st, err := nd.Chain.State()
	if err == nil {
		for _, v := range mon.CheckLive(st, r.W.U) {
			r.Violation("c08:side-import:"+v.Class, fmt.Sprintf("block %d, head state after the side-chain import: %s", n, v.Msg), r.Witness(b, nil))
			return false
		}
	}
	return true
}

// checkBlockhashLogs: what the blockhash contract saw must be the hashes of THIS chain's ancestors
// (independent of whatever else this process executed before: other chains, other branches).
func (r *Run) checkBlockhashLogs(b *BlockCtx, res *build.Result) bool {
	topic := common.BigToHash(big.NewInt(0xbb))
	n := res.Block.NumberU64()
	for _, rc := range res.TxReceipts {
		for _, l := range rc.Logs {
			if len(l.Topics) != 1 || l.Topics[0] != topic || len(l.Data) != 32*len(BlockhashDepths) {
				continue
			}
			for i, d := range BlockhashDepths {
				var want common.Hash
				if d <= 256 && d <= n {
					if h := r.A.Chain.GetHeaderByNumber(n - d); h != nil {
						want = h.Hash()
					}
				}
				got := common.BytesToHash(l.Data[32*i : 32*i+32])
				r.C.Count("blockhash_results_checked", 1)
				if got != want {
					r.Violation("blockhash-not-the-ancestor-hash", fmt.Sprintf("block %d: BLOCKHASH(number-%d) returned %x, the canonical ancestor %d of this chain is %x", n, d, got[:6], int64(n)-int64(d), want[:6]), r.Witness(b, nil))
					return false
				}
			}
		}
	}
	return true
}

// countModuleLogs counts what the staking module's end-of-block receipt reports.
func (r *Run) countModuleLogs(res *build.Result) {
	names := map[common.Hash]string{
		common.StringToHash(staking.LogTopicSlashing):                    "ev_slashings",
		common.StringToHash(staking.LogTopicRecoverFromExpiredExpelling): "ev_expulsions_recovered",
		common.StringToHash(staking.LogTopicWithdrawResult):              "ev_withdraw_results",
		common.StringToHash(staking.LogTopicWithdrawEffect):              "ev_validator_withdraw_effects",
		common.StringToHash(staking.LogTopicDelegationSubEffect):         "ev_delegation_sub_effects",
		common.StringToHash(staking.LogTopicDepositFailed):               "ev_deposit_failed_refunds",
		common.StringToHash(staking.LogTopicDelegationAddFailed):         "ev_delegation_add_failed_refunds",
		common.StringToHash(staking.LogTopicDelegationSubFailed):         "ev_delegation_sub_failed",
		common.StringToHash(staking.LogTopicChangeStatusFailed):          "ev_change_status_failed",
	}
	for _, rc := range res.ModuleReceipts {
		for _, l := range rc.Logs {
			if len(l.Topics) == 0 {
				continue
			}
			if n, ok := names[l.Topics[0]]; ok {
				r.C.Count(n, 1)
				r.SigPart(n)
			}
		}
	}
}

// negativeRecords lists the pending staking records with a negative FinalValue.
func (r *Run) negativeRecords(st *state.StateDB) []string {
	var out []string
	ds := append([]common.Address{{}}, r.W.U.Addrs...)
	for _, d := range ds {
		for _, v := range r.W.U.Vals {
			if rec := st.GetStakingRecord(d, v); rec != nil && rec.FinalValue.Sign() < 0 {
				who := "validator-total record"
				if d != (common.Address{}) {
					who = fmt.Sprintf("delegator user %d", r.W.userIdx[d])
				}
				out = append(out, fmt.Sprintf("%s -> validator #%d: FinalValue %v", who, r.W.ValIndex(v), rec.FinalValue))
			}
		}
	}
	return out
}

// ---------------------------------------------------------------- C08 invariants on every block

// InvMonitor attaches the C08 validator invariants to every block (post state of the builder,
// look-back reader as consensus sees it) and reports them under classes prefixed "c08:".
type InvMonitor struct{}

func (InvMonitor) Start(r *Run) bool          { return true }
func (InvMonitor) Hooks() *build.Hooks        { return nil }
func (InvMonitor) Built(*Run, *BlockCtx) bool { return true }
func (InvMonitor) Finish(*Run)                {}

func (InvMonitor) Imported(r *Run, b *BlockCtx) bool {
	// the builder's post state object (already committed: reading it cannot influence the chain)
	for _, v := range mon.CheckLive(b.Res.State, r.W.U) {
		r.Violation("c08:"+v.Class, fmt.Sprintf("block %d, builder post state: %s", b.N, v.Msg), r.Witness(b, nil))
		return false
	}
	r.C.Evals(1)
	if rd, err := r.A.Chain.LookBackVldReaderForRound(b.N+1, false); err == nil {
		for _, v := range mon.CheckReader(rd, r.W.U) {
			r.Violation("c08:reader:"+v.Class, fmt.Sprintf("look-back reader for round %d: %s", b.N+1, v.Msg), r.Witness(b, nil))
			return false
		}
		r.C.Count("c08_reader_checks", 1)
	}
	if b.ImportErr == nil {
		if st, err := r.B.Chain.State(); err == nil {
			for _, v := range mon.CheckLive(st, r.W.U) {
				r.Violation("c08:importer:"+v.Class, fmt.Sprintf("block %d, importer head state: %s", b.N, v.Msg), r.Witness(b, nil))
				return false
			}
		}
	}
	r.C.Count("c08_block_checks", 1)
	return true
}

// RolesOnline is a small helper for signatures: which roles have online validators.
func RolesOnline(st *state.StateDB) string {
	var s []string
	stat, _ := st.GetValidatorsStat()
	for _, role := range []params.ValidatorRole{params.RoleChancellor, params.RoleSenator, params.RoleHouse} {
		if stat != nil && stat.GetByRole(role).GetCount() > 0 {
			s = append(s, fmt.Sprint(role))
		}
	}
	return strings.Join(s, "")
}
