package chaingen

import (
	"math/big"

	"verif/env"

	"github.com/youchainhq/go-youchain/common"
	"github.com/youchainhq/go-youchain/common/hexutil"
	"github.com/youchainhq/go-youchain/core/state"
	"github.com/youchainhq/go-youchain/crypto"
	"github.com/youchainhq/go-youchain/params"
	"github.com/youchainhq/go-youchain/rlp"
	"github.com/youchainhq/go-youchain/staking"
)

const (
	gasStk    = 300000
	gasCreate = 1400000
	gasCall   = 150000
)

// GenBlock generates the transactions offered to the builder for the next block. st is a fresh
// read-only view of the parent state (used to choose valid and nearly-valid parameters).
func (w *World) GenBlock(st *state.StateDB, number uint64) []TxInfo {
	w.nonces = map[common.Address]uint64{}
	w.touched = map[common.Address]bool{}
	for i := 0; i < w.Sc.Users; i++ {
		a := w.UA(i)
		w.nonces[a] = st.GetNonce(a)
	}
	// forget contracts that are gone (self-destructed, or whose creation failed)
	var live []Deployed
	for _, c := range w.contracts {
		if st.GetCodeSize(c.Addr) > 0 {
			live = append(live, c)
		}
	}
	w.contracts = live

	n := 0
	switch x := w.R.Intn(100); {
	case x < 12:
		n = 0
	case x < 100-w.Sc.Busy:
		n = 1 + w.R.Intn(8)
	default:
		n = 10 + w.R.Intn(20)
	}
	// the first blocks set the stage: contracts, delegation-accepting validators, new validators
	if number <= 3 {
		n += 6
	}
	var out []TxInfo
	if number == 1 {
		// genesis validators do not accept delegations until an update tx has taken effect
		for i := range w.Sc.Vals {
			v := st.GetValidatorByMainAddr(w.VA(i))
			if v == nil || w.R.Intn(7) == 0 {
				continue
			}
			tx := &staking.TxUpdateValidator{MainAddress: v.MainAddress(), CommissionRate: w.rate(), RiskObligation: w.rate(), AcceptDelegation: 1}
			out = append(out, *w.stk(w.operatorOf(v), staking.ValidatorUpdate, tx, gasStk, "stk.update", "valid", nil))
		}
		n += len(out)
	}
	for len(out) < n {
		var ti *TxInfo
		x := w.R.Intn(100)
		if number <= 3 {
			x = []int{25, 40, 62, 96}[w.R.Intn(4)] // deploy, update, create, delegation add
		}
		switch {
		case x < 14:
			ti = w.genTransfer(st)
		case x < 22:
			ti = w.genBadNonceOrGas(st)
		case x < 30:
			ti = w.genDeploy(st)
		case x < 38:
			ti = w.genCall(st)
		case x < 46:
			ti = w.genUpdate(st)
		case x < 52:
			ti = w.genDeposit(st)
		case x < 60:
			ti = w.genWithdraw(st)
		case x < 68:
			ti = w.genCreate(st)
		case x < 74:
			ti = w.genChangeStatus(st, number)
		case x < 77:
			ti = w.genSettle(st)
		case x < 90:
			ti = w.genDlgAdd(st)
		case x < 97:
			ti = w.genDlgSub(st)
		default:
			ti = w.genDlgSettle(st)
		}
		if ti != nil {
			out = append(out, *ti)
		}
	}
	return out
}

// ---------------------------------------------------------------- plain / EVM

func (w *World) genTransfer(st *state.StateDB) *TxInfo {
	u := w.user()
	from := w.UA(u)
	var to common.Address
	plain := true
	switch x := w.R.Intn(12); {
	case x < 6:
		to = w.UA(w.user())
	case x < 8:
		to = w.freshAddr()
	case x < 9:
		to = w.YP.RewardsPoolAddress // a donation to the rewards pool
	case x < 10:
		to = w.VA(w.R.Intn(w.nextVal)) // a validator's main address is just an account
	case x < 11 && len(w.contracts) > 0:
		c := w.contracts[w.R.Intn(len(w.contracts))]
		return w.call(u, c, st)
	default:
		to = from
	}
	variant := "valid"
	var value *big.Int
	switch x := w.R.Intn(10); {
	case x < 1:
		value = new(big.Int)
	case x < 8:
		value = new(big.Int).Rand(w.R, env.YOU(50))
	case x < 9:
		value = youPlus(w.R, 1000, 50000)
	default:
		value = new(big.Int).Add(st.GetBalance(from), big.NewInt(1)) // vm.ErrInsufficientBalance: the tx is skipped by the builder
		variant = "skip:insufficient-balance-for-transfer"
	}
	consume := variant == "valid"
	tx := w.sign(u, &to, value, 21000, w.gasPrice(), nil, w.nonce(from, consume))
	return &TxInfo{Tx: tx, Kind: "transfer", Variant: variant, From: from, To: &to, Plain: plain}
}

// genBadNonceOrGas produces transactions the builder must skip (and account-dropping cases).
func (w *World) genBadNonceOrGas(st *state.StateDB) *TxInfo {
	u := w.user()
	from := w.UA(u)
	to := w.UA(w.otherUser(u))
	val := big.NewInt(12345)
	switch w.R.Intn(5) {
	case 0:
		n := w.nonce(from, false)
		if n == 0 {
			return nil
		}
		return &TxInfo{Tx: w.sign(u, &to, val, 21000, w.gasPrice(), nil, n-1), Kind: "transfer", Variant: "skip:nonce-too-low", From: from, To: &to, Plain: true}
	case 1:
		// nonce gap: this and (by Pop) every later tx of the account in this block is dropped
		return &TxInfo{Tx: w.sign(u, &to, val, 21000, w.gasPrice(), nil, w.nonce(from, false)+1+uint64(w.R.Intn(3))), Kind: "transfer", Variant: "skip:nonce-too-high", From: from, To: &to, Plain: true}
	case 2:
		// more gas than the block can ever hold: ErrGasLimitReached => Pop
		return &TxInfo{Tx: w.sign(u, &to, val, 9000000, big.NewInt(1), nil, w.nonce(from, false)), Kind: "transfer", Variant: "skip:gas-limit-reached", From: from, To: &to, Plain: true}
	case 3:
		// cannot pay for the gas
		price := new(big.Int).Div(st.GetBalance(from), big.NewInt(20000))
		return &TxInfo{Tx: w.sign(u, &to, val, 21000, price, nil, w.nonce(from, false)), Kind: "transfer", Variant: "skip:insufficient-balance-for-gas", From: from, To: &to, Plain: true}
	default:
		// below the intrinsic gas
		return &TxInfo{Tx: w.sign(u, &to, val, 20999, w.gasPrice(), nil, w.nonce(from, false)), Kind: "transfer", Variant: "skip:intrinsic-gas", From: from, To: &to, Plain: true}
	}
}

func (w *World) genDeploy(st *state.StateDB) *TxInfo {
	u := w.user()
	from := w.UA(u)
	kinds := []string{"store", "store", "revert", "log", "suicide", "outer", "badinit", "blockhash"}
	k := kinds[w.R.Intn(len(kinds))]
	var code []byte
	variant := "valid"
	switch k {
	case "store":
		code = Initcode(codeStore)
	case "revert":
		code = Initcode(codeRevert)
	case "log":
		code = Initcode(codeLog)
	case "suicide":
		code = Initcode(codeSuicide)
	case "blockhash":
		code = Initcode(codeBlockhash())
	case "outer":
		var inner *Deployed
		for i := range w.contracts {
			if w.contracts[i].Kind == "revert" || (w.contracts[i].Kind == "store" && w.R.Intn(3) == 0) {
				inner = &w.contracts[i]
			}
		}
		if inner == nil {
			k = "revert"
			code = Initcode(codeRevert)
		} else {
			code = Initcode(codeOuter(inner.Addr))
		}
	case "badinit":
		variant = "fail:init"
		if w.R.Intn(2) == 0 {
			code = initInvalid
		} else {
			code = initRevert
		}
	}
	gas := uint64(200000)
	if w.R.Intn(10) == 0 {
		gas = 54000 + uint64(w.R.Intn(3000)) // may run out of gas during code deposit
		variant = "fail?:low-gas"
	}
	var value *big.Int
	if w.R.Intn(4) == 0 {
		value = new(big.Int).Rand(w.R, env.YOU(3))
	}
	nonce := w.nonce(from, true)
	addr := crypto.CreateAddress(from, nonce)
	w.U.AddAddr(addr)
	if k != "badinit" {
		w.contracts = append(w.contracts, Deployed{Kind: k, Addr: addr}) // confirmed against the state at the next block
	}
	return &TxInfo{Tx: w.sign(u, nil, value, gas, w.gasPrice(), code, nonce), Kind: "evm.deploy." + k, Variant: variant, From: from}
}

func (w *World) genCall(st *state.StateDB) *TxInfo {
	if len(w.contracts) == 0 {
		return w.genDeploy(st)
	}
	return w.call(w.user(), w.contracts[w.R.Intn(len(w.contracts))], st)
}

func (w *World) call(u int, c Deployed, st *state.StateDB) *TxInfo {
	from := w.UA(u)
	var data []byte
	variant := "valid"
	switch c.Kind {
	case "store":
		slot := common.BigToHash(big.NewInt(int64(w.R.Intn(4))))
		var v common.Hash
		if w.R.Intn(2) == 0 {
			v = common.BigToHash(big.NewInt(int64(1 + w.R.Intn(100))))
		} else {
			variant = "valid:clear" // clearing an occupied slot earns a gas refund
		}
		data = append(slot.Bytes(), v.Bytes()...)
	case "revert":
		variant = "fail:revert"
	case "log":
		data = make([]byte, 32)
		w.R.Read(data)
	case "suicide":
		variant = "valid:selfdestruct"
	case "blockhash":
		variant = "valid:blockhash"
	case "outer":
		data = make([]byte, 32)
		if w.R.Intn(2) == 0 {
			data[31] = 1
			variant = "fail:outer-reverts-after-inner-failed"
		} else {
			variant = "valid:outer-survives-inner-failure"
		}
	}
	gas := uint64(gasCall)
	if w.R.Intn(12) == 0 {
		gas = 21000 + uint64(len(data))*16 + uint64(w.R.Intn(6000))
		variant = "fail?:low-gas"
	}
	var value *big.Int
	if w.R.Intn(3) == 0 {
		value = new(big.Int).Rand(w.R, env.YOU(2))
	}
	to := c.Addr
	return &TxInfo{Tx: w.sign(u, &to, value, gas, w.gasPrice(), data, w.nonce(from, true)), Kind: "evm.call." + c.Kind, Variant: variant, From: from, To: &to}
}

// ---------------------------------------------------------------- staking

func (w *World) stk(u int, action staking.ActionType, payload interface{}, gas uint64, kind, variant string, detain *big.Int) *TxInfo {
	bs, err := rlp.EncodeToBytes(payload)
	if err != nil {
		panic(err)
	}
	data, err := rlp.EncodeToBytes(&staking.Message{Action: action, Payload: bs})
	if err != nil {
		panic(err)
	}
	from := w.UA(u)
	to := params.StakingModuleAddress
	var value *big.Int
	if w.R.Intn(25) == 0 {
		value = big.NewInt(777) // tx value is ignored by the staking converter
	}
	return &TxInfo{Tx: w.sign(u, &to, value, gas, w.gasPrice(), data, w.nonce(from, true)), Kind: kind, Variant: variant, From: from, To: &to, Detain: detain}
}

func (w *World) vals(st *state.StateDB) []*state.Validator { return st.GetValidators().List() }

func (w *World) pickVal(st *state.StateDB, ok func(v *state.Validator) bool) *state.Validator {
	var c []*state.Validator
	for _, v := range w.vals(st) {
		if ok == nil || ok(v) {
			c = append(c, v)
		}
	}
	if len(c) == 0 {
		return nil
	}
	return c[w.R.Intn(len(c))]
}

func (w *World) genCreate(st *state.StateDB) *TxInfo {
	u := w.user()
	op := w.UA(u)
	roles := []params.ValidatorRole{params.RoleHouse, params.RoleHouse, params.RoleSenator, params.RoleChancellor}
	role := roles[w.R.Intn(len(roles))]
	if w.Sc.Limits {
		role = params.RoleHouse
	}
	var value *big.Int
	switch role {
	case params.RoleHouse:
		switch w.R.Intn(5) {
		case 0:
			value = big.NewInt(int64(1 + w.R.Intn(60))) // a few LU: stake 0, 2% of it rounds to zero
		case 1:
			value = youPlus(w.R, 1, 99)
		default:
			value = youPlus(w.R, 100, 600)
		}
	case params.RoleSenator:
		value = youPlus(w.R, 500, 1500)
	default:
		value = youPlus(w.R, 1000, 4000)
	}
	variant := "valid"
	x := w.R.Intn(100)
	if w.Sc.Limits {
		x = x%70 + 30
	}
	tx := &staking.TxCreateValidator{OperatorAddress: op, Coinbase: op, Value: value, Role: role,
		AcceptDelegation: uint16(w.R.Intn(2)), CommissionRate: w.rate(), RiskObligation: w.rate()}
	if w.Sc.Limits {
		tx.AcceptDelegation = 1
	}
	if w.R.Intn(3) == 0 {
		tx.Coinbase = w.UA(w.user())
	} else if w.R.Intn(6) == 0 {
		tx.Coinbase = w.freshAddr()
	}
	gas := uint64(gasCreate)
	key := -1
	switch {
	case x < 4:
		variant = "fail:duplicate-existing"
		if v := w.pickVal(st, nil); v != nil {
			key = w.ValIndex(v.MainAddress())
		}
	case x < 8 && w.lastNewVal >= 0:
		variant = "fail?:duplicate-pending"
		key = w.lastNewVal
	case x < 11:
		variant = "fail:bad-operator"
		tx.OperatorAddress = w.UA(w.otherUser(u))
	case x < 14:
		variant = "fail:below-min-self-stake"
		tx.Role = params.RoleSenator
		tx.Value = youPlus(w.R, 1, 498)
	case x < 17:
		variant = "fail:over-max-stake"
		tx.Role = params.RoleHouse
		tx.Value = youPlus(w.R, 150001, 160000)
	case x < 19:
		variant = "fail:insufficient-balance"
		tx.Role = params.RoleChancellor
		tx.Value = new(big.Int).Add(st.GetBalance(op), big.NewInt(1))
		if params.YOUToStake(tx.Value).Uint64() > w.YP.MaxStakes[params.RoleChancellor] {
			return nil
		}
	case x < 21:
		variant = "fail:bad-pubkey"
	case x < 23:
		variant = "fail:bad-role"
		tx.Role = 7
	case x < 25:
		variant = "fail:rate-over-base"
		tx.CommissionRate = 10001
	case x < 28:
		variant = "fail:low-gas-for-creation"
		gas = 400000
	}
	if key < 0 {
		key = w.newValKey()
	}
	tx.Name = "nv" + hexutil.EncodeUint64(uint64(key))
	tx.MainPubKey = w.Keys.ValMainPub(key)
	tx.BlsPubKey = w.Keys.ValBlsPub(key)
	if variant == "fail:bad-pubkey" {
		tx.MainPubKey = tx.MainPubKey[:31]
	}
	return w.stk(u, staking.ValidatorCreate, tx, gas, "stk.create", variant, tx.Value)
}

func (w *World) genUpdate(st *state.StateDB) *TxInfo {
	v := w.pickVal(st, func(v *state.Validator) bool { return w.operatorOf(v) >= 0 })
	if v == nil {
		return nil
	}
	u := w.operatorOf(v)
	tx := &staking.TxUpdateValidator{MainAddress: v.MainAddress(), CommissionRate: 0xffff, RiskObligation: 0xffff, AcceptDelegation: 0xff}
	variant := "valid"
	switch x := w.R.Intn(100); {
	case x < 8:
		variant = "fail:bad-operator"
		u = w.otherUser(u)
		tx.AcceptDelegation = 1 - v.AcceptDelegation&1
	case x < 12:
		variant = "fail:nothing-changed"
		tx.AcceptDelegation = v.AcceptDelegation
		tx.CommissionRate = v.CommissionRate
	case x < 15:
		variant = "fail:accept-unset-marker-rejected-by-precheck"
		tx.CommissionRate = w.rate()
	case x < 18:
		variant = "fail:not-found"
		tx.MainAddress = w.freshAddr()
	default:
		// accept delegation most of the time (genesis validators start with 0)
		switch y := w.R.Intn(30); {
		case y == 0:
			tx.AcceptDelegation = 0xffff // the uint16 "unset" marker: passes PreCheck, is stored as is
		case y < 24:
			tx.AcceptDelegation = 1
		default:
			tx.AcceptDelegation = 0
		}
		if w.R.Intn(2) == 0 {
			tx.CommissionRate = w.rate()
		}
		if w.R.Intn(2) == 0 {
			tx.RiskObligation = w.rate()
		}
		if w.R.Intn(5) == 0 {
			tx.Coinbase = w.UA(w.user())
		}
		if w.R.Intn(12) == 0 && !w.isAnchor(v) {
			tx.OperatorAddress = w.UA(w.user())
		}
		if w.R.Intn(6) == 0 {
			tx.Name = "n" + hexutil.EncodeUint64(uint64(w.R.Intn(1000)))
		}
		if tx.AcceptDelegation == v.AcceptDelegation && tx.CommissionRate == 0xffff && tx.RiskObligation == 0xffff && tx.Coinbase == (common.Address{}) && tx.OperatorAddress == (common.Address{}) && tx.Name == "" {
			variant = "fail:nothing-changed"
		}
	}
	return w.stk(u, staking.ValidatorUpdate, tx, gasStk, "stk.update", variant, nil)
}

func (w *World) genDeposit(st *state.StateDB) *TxInfo {
	v := w.pickVal(st, func(v *state.Validator) bool { return w.operatorOf(v) >= 0 })
	if v == nil {
		return nil
	}
	u := w.operatorOf(v)
	tx := &staking.TxValidatorDeposit{MainAddress: v.MainAddress()}
	variant := "valid?" // may still be refused (pending totals over the maximum) or fail to take effect
	switch x := w.R.Intn(100); {
	case x < 8:
		variant = "fail:bad-operator"
		u = w.otherUser(u)
		tx.Value = youPlus(w.R, 1, 10)
	case x < 16:
		variant = "fail:over-max-stake"
		tx.Value = new(big.Int).Mul(new(big.Int).SetUint64(w.YP.MaxStakes[v.Role]+1), params.StakeUint)
		if tx.Value.Cmp(st.GetBalance(w.UA(u))) > 0 {
			variant = "fail:insufficient-balance"
		}
	case x < 20:
		variant = "fail:zero-value"
		tx.Value = new(big.Int)
	case x < 24:
		variant = "fail:not-found"
		tx.MainAddress = w.freshAddr()
		tx.Value = youPlus(w.R, 1, 10)
	case x < 44 && len(v.Delegations) > 0 && func() bool {
		rec := st.GetStakingRecordValue(common.Address{}, v.MainAddress())
		return rec.Sign() > 0 && rec.Cmp(v.Token) < 0
	}():
		// a withdraw request of this period has set the validator-total pending record to the (smaller)
		// remaining SELF token; a deposit filling the maximum measured against that record is accepted
		// now and must fail to take effect (and be refunded) because the delegations count too
		rec := st.GetStakingRecordValue(common.Address{}, v.MainAddress())
		tx.Value = new(big.Int).Mul(new(big.Int).SetUint64(w.YP.MaxStakes[v.Role]), params.StakeUint)
		tx.Value.Sub(tx.Value, rec)
		variant = "valid?:take-effect-must-refund"
		if tx.Value.Sign() <= 0 || tx.Value.Cmp(st.GetBalance(w.UA(u))) > 0 {
			return nil
		}
	case x < 32:
		tx.Value = big.NewInt(int64(1 + w.R.Intn(1000))) // dust deposit
	case x < 40:
		// up to exactly the maximum (boundary), or one stake unit beyond (take-effect refund when other
		// activations of the period are counted too)
		room := new(big.Int).Mul(new(big.Int).SetUint64(w.YP.MaxStakes[v.Role]), params.StakeUint)
		room.Sub(room, v.Token)
		if room.Sign() <= 0 || room.Cmp(st.GetBalance(w.UA(u))) > 0 {
			tx.Value = youPlus(w.R, 1, 100)
		} else {
			tx.Value = room
		}
	default:
		tx.Value = youPlus(w.R, 1, 500)
	}
	w.touched[v.MainAddress()] = true
	return w.stk(u, staking.ValidatorDeposit, tx, gasStk, "stk.deposit", variant, tx.Value)
}

func (w *World) genWithdraw(st *state.StateDB) *TxInfo {
	v := w.pickVal(st, func(v *state.Validator) bool { return w.operatorOf(v) >= 0 && !w.isAnchor(v) })
	if v == nil {
		return nil
	}
	u := w.operatorOf(v)
	tx := &staking.TxValidatorWithdraw{MainAddress: v.MainAddress(), Recipient: v.OperatorAddress}
	switch w.R.Intn(4) {
	case 0:
		tx.Recipient = w.UA(w.user())
	case 1:
		tx.Recipient = w.freshAddr()
	}
	variant := "valid?"
	minSelf := new(big.Int).Mul(new(big.Int).SetUint64(w.YP.MinSelfStakes[v.Role]), params.StakeUint)
	switch x := w.R.Intn(100); {
	case x < 8:
		variant = "fail:bad-operator"
		u = w.otherUser(u)
		tx.Value = big.NewInt(1)
	case x < 16:
		variant = "fail?:more-than-self-token"
		tx.Value = new(big.Int).Add(v.SelfToken, big.NewInt(1))
	case x < 20:
		variant = "fail:no-recipient"
		tx.Recipient = common.Address{}
		tx.Value = big.NewInt(1)
	case x < 24:
		variant = "fail:zero-value"
		tx.Value = new(big.Int)
	case x < 44:
		// everything: the validator ends with no self stake (and disappears if nobody delegates to it)
		tx.Value = new(big.Int).Set(v.SelfToken)
	case x < 64 && v.SelfToken.Cmp(minSelf) > 0 && minSelf.Sign() > 0:
		// leave less than the minimum self stake: forced full withdrawal under V5
		keep := new(big.Int).Rand(w.R, minSelf)
		tx.Value = new(big.Int).Sub(v.SelfToken, keep)
	default:
		if v.SelfToken.Sign() == 0 {
			return nil
		}
		tx.Value = new(big.Int).Rand(w.R, v.SelfToken)
		tx.Value.Add(tx.Value, big.NewInt(1))
	}
	if tx.Value.Sign() == 0 && variant == "valid?" {
		return nil
	}
	w.touched[v.MainAddress()] = true
	return w.stk(u, staking.ValidatorWithDraw, tx, gasStk, "stk.withdraw", variant, nil)
}

func (w *World) genChangeStatus(st *state.StateDB, number uint64) *TxInfo {
	v := w.pickVal(st, func(v *state.Validator) bool { return w.operatorOf(v) >= 0 && !w.isAnchor(v) })
	if v == nil {
		return nil
	}
	u := w.operatorOf(v)
	tx := &staking.TxValidatorChangeStatus{MainAddress: v.MainAddress(), Status: 1 - v.Status&1}
	variant := "valid?"
	switch x := w.R.Intn(100); {
	case x < 8:
		variant = "fail:bad-operator"
		u = w.otherUser(u)
	case x < 16:
		variant = "fail:already-in-status"
		tx.Status = v.Status
	case x < 20:
		variant = "fail:bad-status"
		tx.Status = 2
	default:
		// prefer bringing validators online (offline ones are dull)
		if tx.Status == params.ValidatorOffline && w.R.Intn(3) != 0 {
			return nil
		}
		if tx.Status == params.ValidatorOnline && v.Stake.Uint64() < w.YP.MinStakes[v.Role] {
			variant = "fail:insufficient-stake-to-online"
		}
		if v.Expelled {
			variant = "fail?:expelled"
		}
	}
	return w.stk(u, staking.ValidatorChangeStatus, tx, gasStk, "stk.status", variant, nil)
}

func (w *World) genSettle(st *state.StateDB) *TxInfo {
	v := w.pickVal(st, func(v *state.Validator) bool { return w.operatorOf(v) >= 0 && !w.isAnchor(v) })
	if v == nil {
		return nil
	}
	u := w.operatorOf(v)
	variant := "valid"
	if v.IsOffline() {
		variant = "fail:offline"
	}
	if w.R.Intn(8) == 0 {
		variant = "fail:bad-operator"
		u = w.otherUser(u)
	}
	return w.stk(u, staking.ValidatorSettle, &staking.TxValidatorSettle{MainAddress: v.MainAddress()}, gasStk, "stk.settle", variant, nil)
}

func (w *World) genDlgAdd(st *state.StateDB) *TxInfo {
	u := w.user()
	if w.Sc.Limits && w.R.Intn(3) == 0 {
		u = w.Sc.Users - 1 // the whale: delegates to as many validators as it can
	}
	from := w.UA(u)
	accepting := func(v *state.Validator) bool {
		return v.AcceptDelegation == params.AcceptDelegation && !v.Expelled
	}
	if w.Sc.Limits && w.R.Intn(3) == 0 {
		// fill the hub validator up to (and beyond) MaxDelegationForValidator: prefer users that do not
		// delegate to it yet
		if hub := st.GetValidatorByMainAddr(w.hub); hub != nil && accepting(hub) {
			start := w.R.Intn(w.Sc.Users)
			for k := 0; k < w.Sc.Users; k++ {
				cand := (start + k) % w.Sc.Users
				if a := w.UA(cand); !hub.Delegations.Exist(a) && !st.PendingRelationshipExist(a, w.hub) {
					u = cand
					break
				}
			}
			val := youPlus(w.R, 10, 12)
			return w.stk(u, staking.DelegationAdd, &staking.TxDelegation{Validator: w.hub, Value: val}, gasStk, "stk.dlgadd", "valid?:hub", val)
		}
	}
	variant := "valid?"
	var v *state.Validator
	value := youPlus(w.R, 10, 200)
	x := w.R.Intn(100)
	switch {
	case x < 6:
		variant = "fail:not-accepting-or-expelled"
		v = w.pickVal(st, func(v *state.Validator) bool { return !accepting(v) })
	case x < 10:
		variant = "fail:below-min-delegation"
		v = w.pickVal(st, accepting)
		value = new(big.Int).Sub(w.YP.MinDelegationTokens, big.NewInt(int64(1+w.R.Intn(1000))))
	case x < 14:
		variant = "fail:over-max-stake"
		v = w.pickVal(st, accepting)
		if v != nil {
			value = new(big.Int).Mul(new(big.Int).SetUint64(w.YP.MaxStakes[v.Role]+1), params.StakeUint)
			if value.Cmp(st.GetBalance(from)) > 0 {
				variant = "fail:insufficient-balance"
			}
		}
	case x < 17:
		variant = "fail:not-found"
		tx := &staking.TxDelegation{Validator: w.freshAddr(), Value: value}
		return w.stk(u, staking.DelegationAdd, tx, gasStk, "stk.dlgadd", variant, value)
	case x < 20:
		variant = "fail:zero-value"
		v = w.pickVal(st, accepting)
		value = new(big.Int)
	default:
		if w.Sc.Limits && u == w.Sc.Users-1 {
			// a validator the whale does not delegate to yet
			have := map[common.Address]bool{}
			if ds, err := st.GetDelegationsFrom(from); err == nil {
				for _, d := range ds {
					have[d.Validator] = true
				}
			}
			v = w.pickVal(st, func(v *state.Validator) bool { return accepting(v) && !have[v.MainAddress()] })
			value = youPlus(w.R, 10, 12)
		} else if w.Sc.Limits && w.R.Intn(2) == 0 {
			v = st.GetValidatorByMainAddr(w.hub)
			if v != nil && !accepting(v) {
				v = nil
			}
			value = youPlus(w.R, 10, 12)
		}
		if v == nil {
			v = w.pickVal(st, accepting)
		}
		if w.R.Intn(10) == 0 {
			value = new(big.Int).Set(w.YP.MinDelegationTokens) // exactly the minimum
		}
	}
	if v == nil {
		return nil
	}
	tx := &staking.TxDelegation{Validator: v.MainAddress(), Value: value}
	return w.stk(u, staking.DelegationAdd, tx, gasStk, "stk.dlgadd", variant, value)
}

type dlg struct {
	user int
	to   *state.DelegationTo
}

func (w *World) delegations(st *state.StateDB) []dlg {
	var out []dlg
	for i := 0; i < w.Sc.Users; i++ {
		ds, err := st.GetDelegationsFrom(w.UA(i))
		if err != nil {
			continue
		}
		for _, d := range ds {
			out = append(out, dlg{i, d})
		}
	}
	return out
}

func (w *World) genDlgSub(st *state.StateDB) *TxInfo {
	ds := w.delegations(st)
	x := w.R.Intn(100)
	if len(ds) == 0 || x < 8 {
		v := w.pickVal(st, nil)
		if v == nil {
			return nil
		}
		u := w.user()
		variant := "fail?:no-such-delegation"
		return w.stk(u, staking.DelegationSub, &staking.TxDelegation{Validator: v.MainAddress(), Value: youPlus(w.R, 1, 20)}, gasStk, "stk.dlgsub", variant, nil)
	}
	d := ds[w.R.Intn(len(ds))]
	variant := "valid?"
	var value *big.Int
	switch {
	case x < 16:
		variant = "fail?:more-than-delegated"
		value = new(big.Int).Add(d.to.Token, big.NewInt(1))
	case x < 40:
		value = new(big.Int).Set(d.to.Token) // everything
	case x < 65 && d.to.Token.Cmp(w.YP.MinDelegationTokens) > 0:
		// leave less than MinDelegationTokens: forced full withdrawal
		keep := new(big.Int).Rand(w.R, w.YP.MinDelegationTokens)
		value = new(big.Int).Sub(d.to.Token, keep)
	default:
		value = new(big.Int).Rand(w.R, d.to.Token)
		value.Add(value, big.NewInt(1))
	}
	if value.Sign() <= 0 {
		return nil
	}
	if !w.Sc.NegRecord {
		// the validator-total pending record is shared by withdraw/deposit (self-token based) and
		// delegation changes (total-token based): a sub larger than it would drive it negative
		if tot := st.GetStakingRecordValue(common.Address{}, d.to.Validator); w.touched[d.to.Validator] || (tot.Sign() != 0 && tot.Cmp(value) < 0) {
			return nil
		}
		// several subs in one block add up
		if w.subbed == nil || w.subbedAt != st {
			w.subbed, w.subbedAt = map[common.Address]*big.Int{}, st
		}
		acc := w.subbed[d.to.Validator]
		if acc == nil {
			acc = new(big.Int)
			w.subbed[d.to.Validator] = acc
		}
		acc.Add(acc, value)
		if tot := st.GetStakingRecordValue(common.Address{}, d.to.Validator); tot.Sign() != 0 && tot.Cmp(acc) < 0 {
			return nil
		}
	}
	return w.stk(d.user, staking.DelegationSub, &staking.TxDelegation{Validator: d.to.Validator, Value: value}, gasStk, "stk.dlgsub", variant, nil)
}

func (w *World) genDlgSettle(st *state.StateDB) *TxInfo {
	ds := w.delegations(st)
	if len(ds) == 0 || w.R.Intn(5) == 0 {
		v := w.pickVal(st, nil)
		if v == nil {
			return nil
		}
		return w.stk(w.user(), staking.DelegationSettle, &staking.TxDelegationSettle{Validator: v.MainAddress()}, gasStk, "stk.dlgsettle", "fail?:no-such-delegation", nil)
	}
	d := ds[w.R.Intn(len(ds))]
	return w.stk(d.user, staking.DelegationSettle, &staking.TxDelegationSettle{Validator: d.to.Validator}, gasStk, "stk.dlgsettle", "valid", nil)
}

// TinyCreate is a valid creation of a House validator whose self stake is lu LU (stake 0; 2 % of it
// rounds to zero), sent by user 5.
func (w *World) TinyCreate(st *state.StateDB, lu int64) (TxInfo, common.Address) {
	w.nonces = map[common.Address]uint64{}
	for i := 0; i < w.Sc.Users; i++ {
		w.nonces[w.UA(i)] = st.GetNonce(w.UA(i))
	}
	u := 5
	key := w.newValKey()
	tx := &staking.TxCreateValidator{Name: "tiny", OperatorAddress: w.UA(u), Coinbase: w.UA(u), Value: big.NewInt(lu), Role: params.RoleHouse,
		MainPubKey: w.Keys.ValMainPub(key), BlsPubKey: w.Keys.ValBlsPub(key)}
	return *w.stk(u, staking.ValidatorCreate, tx, gasCreate, "stk.create", "valid", tx.Value), w.VA(key)
}

// BeginScript resets the working nonces from st (scripted blocks do not go through GenBlock).
func (w *World) BeginScript(st *state.StateDB) {
	w.nonces = map[common.Address]uint64{}
	w.touched = map[common.Address]bool{}
	for i := 0; i < w.Sc.Users; i++ {
		w.nonces[w.UA(i)] = st.GetNonce(w.UA(i))
	}
}

// StakingTx is a staking transaction of user u for scripted blocks (gas price 1 gwei).
func (w *World) StakingTx(u int, action staking.ActionType, payload interface{}, kind string, detain *big.Int) TxInfo {
	bs, err := rlp.EncodeToBytes(payload)
	if err != nil {
		panic(err)
	}
	data, err := rlp.EncodeToBytes(&staking.Message{Action: action, Payload: bs})
	if err != nil {
		panic(err)
	}
	gas := uint64(gasStk)
	if action == staking.ValidatorCreate {
		gas = gasCreate
	}
	from, to := w.UA(u), params.StakingModuleAddress
	return TxInfo{Tx: w.sign(u, &to, nil, gas, big.NewInt(1000000000), data, w.nonce(from, true)), Kind: kind, Variant: "scripted", From: from, To: &to, Detain: detain}
}

// StoreContractInit is the creation code of the storage-writer contract (SSTORE(calldata[0:32], calldata[32:64])).
func StoreContractInit() []byte { return Initcode(codeStore) }

// EVMTx is a plain/EVM transaction of user u for scripted blocks (gas price 1 gwei); to == nil creates.
func (w *World) EVMTx(u int, to *common.Address, value *big.Int, gas uint64, data []byte, kind string) (TxInfo, common.Address) {
	from := w.UA(u)
	nonce := w.nonce(from, true)
	var created common.Address
	if to == nil {
		created = crypto.CreateAddress(from, nonce)
		w.U.AddAddr(created)
	}
	return TxInfo{Tx: w.sign(u, to, value, gas, big.NewInt(1000000000), data, nonce), Kind: kind, Variant: "scripted", From: from, To: to}, created
}
