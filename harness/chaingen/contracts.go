package chaingen

import "github.com/youchainhq/go-youchain/common"

// Tiny hand-assembled contracts. Runtime code only; Initcode() wraps it into creation code.
//
//	store   : SSTORE(calldata[0:32], calldata[32:64])            (value 0 on a set slot => gas refund)
//	revert  : SSTORE(0,1); REVERT(0,0)                           (always fails, state change undone)
//	log     : mem[0:32]=calldata[0:32]; LOG2(0,32, 0xaa, CALLER)
//	suicide : SELFDESTRUCT(CALLER)                               (balance goes to the caller; refund)
//	blockhash: logs BLOCKHASH(NUMBER-d) for d in BlockhashDepths (checked against the canonical chain by the run)
//	outer   : SSTORE(1,7); r=CALL(gas, inner, 0, 0,0,0,0); SSTORE(2,r); if calldata[0:32]!=0 REVERT
var (
	codeStore   = []byte{0x60, 0x20, 0x35, 0x60, 0x00, 0x35, 0x55, 0x00}
	codeRevert  = []byte{0x60, 0x01, 0x60, 0x00, 0x55, 0x60, 0x00, 0x60, 0x00, 0xfd}
	codeLog     = []byte{0x60, 0x20, 0x60, 0x00, 0x60, 0x00, 0x37, 0x33, 0x60, 0xaa, 0x60, 0x20, 0x60, 0x00, 0xa2, 0x00}
	codeSuicide = []byte{0x33, 0xff}
	// init code that fails: INVALID
	initInvalid = []byte{0xfe}
	// init code that reverts
	initRevert = []byte{0x60, 0x00, 0x60, 0x00, 0xfd}
)

// BlockhashDepths are the distances the blockhash contract asks for.
var BlockhashDepths = []uint64{1, 2, 3, 5, 100, 255, 256, 257}

// BlockhashTopic marks the log of the blockhash contract.

// codeBlockhash: mem[32*i : 32*i+32] = BLOCKHASH(NUMBER - depth_i); LOG1(0, 32*len, 0xbb)
func codeBlockhash() []byte {
	var c []byte
	for i, k := range BlockhashDepths {
		if k < 256 {
			c = append(c, 0x60, byte(k))
		} else {
			c = append(c, 0x61, byte(k>>8), byte(k))
		}
		c = append(c, 0x43, 0x03, 0x40, 0x60, byte(32*i), 0x52) // NUMBER SUB BLOCKHASH PUSH1 off MSTORE
	}
	n := 32 * len(BlockhashDepths)
	c = append(c, 0x60, 0xbb, 0x61, byte(n>>8), byte(n), 0x60, 0x00, 0xa1, 0x00) // LOG1(0,n,0xbb) STOP
	return c
}

func codeOuter(inner common.Address) []byte {
	c := []byte{0x60, 0x07, 0x60, 0x01, 0x55, // SSTORE(1,7)
		0x60, 0x00, 0x60, 0x00, 0x60, 0x00, 0x60, 0x00, 0x60, 0x00, // ret/args/value
		0x73}
	c = append(c, inner[:]...)
	c = append(c, 0x5a, 0xf1, // GAS CALL
		0x60, 0x02, 0x55, // SSTORE(2, result)
		0x60, 0x00, 0x35) // CALLDATALOAD(0)
	dest := byte(len(c) + 4)
	c = append(c, 0x60, dest, 0x57, 0x00, // JUMPI dest; STOP
		0x5b, 0x60, 0x00, 0x60, 0x00, 0xfd) // JUMPDEST REVERT(0,0)
	return c
}

// Initcode returns creation code that deploys runtime (len < 256).
func Initcode(runtime []byte) []byte {
	init := []byte{0x60, byte(len(runtime)), 0x80, 0x60, 0x0b, 0x60, 0x00, 0x39, 0x60, 0x00, 0xf3}
	return append(init, runtime...)
}

// Deployed is a contract the generator believes to exist (confirmed against the state before use).
type Deployed struct {
	Kind string // store | revert | log | suicide | outer | blockhash
	Addr common.Address
}
