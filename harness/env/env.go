// Package env assembles what you/backend.go assembles, minus p2p: genesis, databases, the real
// BlockChain with the staking module registered and started, and engines.
package env

import (
	"crypto/ecdsa"
	"encoding/binary"
	"fmt"
	"math/big"
	"sync"

	"github.com/youchainhq/go-youchain/bls"
	"github.com/youchainhq/go-youchain/common"
	"github.com/youchainhq/go-youchain/common/hexutil"
	"github.com/youchainhq/go-youchain/consensus"
	"github.com/youchainhq/go-youchain/consensus/solo"
	"github.com/youchainhq/go-youchain/core"
	"github.com/youchainhq/go-youchain/core/state"
	"github.com/youchainhq/go-youchain/crypto"
	"github.com/youchainhq/go-youchain/event"
	"github.com/youchainhq/go-youchain/local"
	"github.com/youchainhq/go-youchain/params"
	"github.com/youchainhq/go-youchain/staking"
	"github.com/youchainhq/go-youchain/youdb"
)

// NetworkID is the test-case network (small staking periods, look-back 16 …).
const NetworkID = 99

var initOnce sync.Once

// Init selects the test-case protocol parameters (process global).
func Init() {
	initOnce.Do(func() { params.InitNetworkId(NetworkID) })
}

// GenesisConsensus is the consensus field every shipped genesis uses.
var GenesisConsensus = hexutil.MustDecode("0xf84e8001a05d93025288dddb431e3f43e07c63d1a96a28bf033457c74ee3f4d8eed88d3cf601a0010000000000000000000000000000000000000000000000000000000000000001801a8207d0820fa0")

// Keyring derives every key of the harness from one seed.
type Keyring struct{ Seed int64 }

func (k Keyring) ecdsa(kind string, i int) *ecdsa.PrivateKey {
	var b [8]byte
	binary.BigEndian.PutUint64(b[:], uint64(k.Seed))
	for n := 0; ; n++ {
		key, err := crypto.ToECDSA(crypto.Keccak256(b[:], []byte(kind), []byte(fmt.Sprintf("%d/%d", i, n))))
		if err == nil {
			return key
		}
	}
}

// ValKey is the consensus (main) key of validator i.
func (k Keyring) ValKey(i int) *ecdsa.PrivateKey { return k.ecdsa("val", i) }

// UserKey is the key of user account i.
func (k Keyring) UserKey(i int) *ecdsa.PrivateKey { return k.ecdsa("user", i) }

func (k Keyring) UserAddr(i int) common.Address {
	return crypto.PubkeyToAddress(k.UserKey(i).PublicKey)
}

// ValMainPub is the compressed main public key of validator i.
func (k Keyring) ValMainPub(i int) []byte { return crypto.CompressPubkey(&k.ValKey(i).PublicKey) }

func (k Keyring) ValAddr(i int) common.Address { return state.PubToAddress(k.ValMainPub(i)) }

var blsMgr = bls.NewBlsManager()

// ValBls is the BLS secret key of validator i (deterministic).
func (k Keyring) ValBls(i int) bls.SecretKey {
	var b [8]byte
	binary.BigEndian.PutUint64(b[:], uint64(k.Seed))
	for n := 0; ; n++ {
		h := crypto.Keccak256(b[:], []byte("bls"), []byte(fmt.Sprintf("%d/%d", i, n)))
		h[0] &= 0x0f // keep the scalar below the group order
		sk, err := blsMgr.DecSecretKey(h)
		if err == nil && sk != nil {
			return sk
		}
	}
}

func (k Keyring) ValBlsPub(i int) []byte {
	pk, err := k.ValBls(i).PubKey()
	if err != nil {
		panic(err)
	}
	c := pk.Compress()
	return c.Bytes()
}

// ValSpec describes one genesis validator.
type ValSpec struct {
	Role   params.ValidatorRole
	Status uint8
	Tokens *big.Int // in LU
	// Operator is the user index that operates the validator (also its coinbase)
	Operator int
}

// Config describes a genesis.
type Config struct {
	Keys        Keyring
	Vals        []ValSpec
	Users       int
	UserBalance *big.Int // LU per user
	RewardsPool *big.Int // LU in the rewards pool account (subsidies come out of it)
	Alloc       core.GenesisAlloc
	GasLimit    uint64
	Version     params.YouVersion
}

// YOU returns n YOU in LU.
func YOU(n int64) *big.Int { return new(big.Int).Mul(big.NewInt(n), params.StakeUint) }

// MakeGenesis builds the genesis specification.
func MakeGenesis(cfg Config) *core.Genesis {
	Init()
	g := &core.Genesis{
		NetworkId:   NetworkID,
		Consensus:   GenesisConsensus,
		GasLimit:    cfg.GasLimit,
		Alloc:       core.GenesisAlloc{},
		Validators:  core.GenesisValidators{},
		CurrVersion: cfg.Version,
		Timestamp:   1600000000,
	}
	if g.GasLimit == 0 {
		g.GasLimit = 0x888888
	}
	if g.CurrVersion == 0 {
		g.CurrVersion = params.YouV5
	}
	for a, acc := range cfg.Alloc {
		g.Alloc[a] = acc
	}
	for i := 0; i < cfg.Users; i++ {
		bal := cfg.UserBalance
		if bal == nil {
			bal = YOU(1000000)
		}
		g.Alloc[cfg.Keys.UserAddr(i)] = core.GenesisAccount{Balance: new(big.Int).Set(bal)}
	}
	if cfg.RewardsPool != nil && cfg.RewardsPool.Sign() > 0 {
		yp := params.Versions[g.CurrVersion]
		g.Alloc[yp.RewardsPoolAddress] = core.GenesisAccount{Balance: new(big.Int).Set(cfg.RewardsPool)}
	}
	for i, v := range cfg.Vals {
		op := cfg.Keys.UserAddr(v.Operator)
		g.Validators[cfg.Keys.ValAddr(i)] = core.GenesisValidator{
			Name: fmt.Sprintf("gv%d", i), OperatorAddress: op, Coinbase: op,
			MainPubKey: cfg.Keys.ValMainPub(i), BlsPubKey: cfg.Keys.ValBlsPub(i),
			Token: new(big.Int).Set(v.Tokens), Role: v.Role, Status: v.Status,
		}
	}
	return g
}

// NeutralEngine accepts every header (solo) and reports Coinbase as the local validator: used
// where consensus is not the subject, so that a defect in header verification cannot masquerade
// as e.g. a conservation failure.
type NeutralEngine struct {
	*solo.Solo
	Coinbase common.Address
}

func NewNeutralEngine(coinbase common.Address) *NeutralEngine {
	return &NeutralEngine{Solo: solo.NewFallbackSolo(true, 0, 1, 0), Coinbase: coinbase}
}

func (e *NeutralEngine) GetValMainAddress() common.Address { return e.Coinbase }

// Node is one in-memory node without networking.
type Node struct {
	DB      youdb.Database
	Chain   *core.BlockChain
	Mux     *event.TypeMux
	Staking *staking.Staking
	Engine  consensus.Engine
}

// NewNodeOn assembles a node over an existing database (restart) or a fresh one.
func NewNodeOn(db youdb.Database, g *core.Genesis, eng consensus.Engine) (*Node, error) {
	return NewNodeOnOpt(db, g, eng, true)
}

// NewNodeOnOpt: withStaking=false leaves the staking module unregistered (the bare core processor,
// as the repository's own core tests run it): blocks then carry no module receipt, an empty block
// has no receipt at all.
func NewNodeOnOpt(db youdb.Database, g *core.Genesis, eng consensus.Engine, withStaking bool) (*Node, error) {
	Init()
	if _, err := core.SetupGenesisBlock(db, NetworkID, g); err != nil {
		return nil, fmt.Errorf("SetupGenesisBlock: %v", err)
	}
	mux := new(event.TypeMux)
	chain, err := core.NewBlockChain(db, eng, mux, params.ArchiveNode, local.FakeDetailDB())
	if err != nil {
		return nil, fmt.Errorf("NewBlockChain: %v", err)
	}
	if !withStaking {
		return &Node{DB: db, Chain: chain, Mux: mux, Engine: eng}, nil
	}
	s := staking.NewStaking(mux)
	s.Register(chain.Processor())
	if err := s.Start(chain, eng); err != nil {
		return nil, fmt.Errorf("staking.Start: %v", err)
	}
	return &Node{DB: db, Chain: chain, Mux: mux, Staking: s, Engine: eng}, nil
}

func NewNode(g *core.Genesis, eng consensus.Engine) (*Node, error) {
	return NewNodeOn(youdb.NewMemDatabase(), g, eng)
}

func (n *Node) Stop() {
	if n.Staking != nil {
		n.Staking.Stop()
	}
	n.Chain.Stop()
	n.Mux.Stop()
}
