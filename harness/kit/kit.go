// Package kit is the child-side protocol of the verif harness: a property runner executes
// cases, each bracketed by a "begin" line (flushed BEFORE the case runs, so that a process
// death leaves the failing input on disk) and an "end" line carrying the verdict and what the
// monitor observed. It imports nothing from go-youchain.
package kit

import (
	"bufio"
	"crypto/sha256"
	"encoding/binary"
	"encoding/json"
	"fmt"
	"math/rand"
	"os"
	"runtime/debug"
	"sort"
	"sync"
)

// Line is one JSONL record of the child protocol.
type Line struct {
	T       string          `json:"t"`                 // begin | end | viol | summary | note
	Case    string          `json:"case,omitempty"`    // case id (unique per property+seed)
	Input   json.RawMessage `json:"input,omitempty"`   // begin: replay description
	Verdict string          `json:"verdict,omitempty"` // end: held | violated | inconclusive
	Class   string          `json:"class,omitempty"`   // viol: signature used for known-finding matching
	Msg     string          `json:"msg,omitempty"`
	Witness json.RawMessage `json:"witness,omitempty"`
	Summary *Summary        `json:"summary,omitempty"`
}

// Summary is what one child observed over its whole batch.
type Summary struct {
	Evaluations  int64            `json:"evaluations"`
	Cases        int64            `json:"cases"`
	Sigs         []uint64         `json:"sigs"` // distinct non-trivial case signatures (hashed)
	Counters     map[string]int64 `json:"counters"`
	Samples      []interface{}    `json:"samples"`
	Inconclusive []string         `json:"inconclusive,omitempty"`
}

// Ctx is handed to a property runner.
type Ctx struct {
	Prop     string
	Tier     string // quick | thorough
	Seed     int64
	Batch    int
	NBatches int
	Only     string // when non-empty: run only this case id (replay)
	After    string // when non-empty: skip every case up to and including this id (resume after a death)
	Mode     string // build variant: plain | race | asan | intpool

	mu       sync.Mutex
	w        *bufio.Writer
	f        *os.File
	cur      string
	curViol  bool
	sum      Summary
	sigs     map[uint64]struct{}
	nsamples int
}

func New(prop, tier string, seed int64, batch, nb int, only, mode, outPath string) (*Ctx, error) {
	f, err := os.OpenFile(outPath, os.O_CREATE|os.O_WRONLY|os.O_TRUNC, 0644)
	if err != nil {
		return nil, err
	}
	return &Ctx{Prop: prop, Tier: tier, Seed: seed, Batch: batch, NBatches: nb, Only: only, Mode: mode,
		w: bufio.NewWriterSize(f, 1<<16), f: f, sigs: map[uint64]struct{}{},
		sum: Summary{Counters: map[string]int64{}}}, nil
}

func (c *Ctx) Quick() bool { return c.Tier != "thorough" }

// N picks the tier-dependent size.
func (c *Ctx) N(quick, thorough int) int {
	if c.Quick() {
		return quick
	}
	return thorough
}

// Mine reports whether case index i belongs to this batch (and passes the replay filter).
func (c *Ctx) Mine(i int, id string) bool {
	if c.Only != "" {
		return id == c.Only
	}
	if i%c.NBatches != c.Batch {
		return false
	}
	if c.After != "" {
		if id == c.After {
			c.After = ""
		}
		return false
	}
	return true
}

// Rand returns the PRNG of a case: determined by (VERIF_SEED, property, case id) only.
func (c *Ctx) Rand(id string) *rand.Rand {
	h := sha256.Sum256([]byte(fmt.Sprintf("%d|%s|%s", c.Seed, c.Prop, id)))
	return rand.New(rand.NewSource(int64(binary.BigEndian.Uint64(h[:8]))))
}

func (c *Ctx) emit(l *Line) {
	b, err := json.Marshal(l)
	if err != nil {
		b, _ = json.Marshal(&Line{T: "note", Msg: "marshal error: " + err.Error()})
	}
	c.w.Write(b)
	c.w.WriteByte('\n')
}

func raw(v interface{}) json.RawMessage {
	if v == nil {
		return nil
	}
	b, err := json.Marshal(v)
	if err != nil {
		b, _ = json.Marshal(fmt.Sprintf("%+v", v))
	}
	return b
}

// Begin logs the case and its replay input and flushes to disk before the case is executed.
func (c *Ctx) Begin(id string, input interface{}) {
	c.mu.Lock()
	defer c.mu.Unlock()
	c.cur = id
	c.curViol = false
	c.emit(&Line{T: "begin", Case: id, Input: raw(input)})
	c.w.Flush()
}

// Violation records a refuting observation inside the current case. class is the stable
// signature matched against known_findings.json.
func (c *Ctx) Violation(class, msg string, witness interface{}) {
	c.mu.Lock()
	defer c.mu.Unlock()
	c.curViol = true
	c.emit(&Line{T: "viol", Case: c.cur, Class: class, Msg: msg, Witness: raw(witness)})
	c.w.Flush()
}

// End closes the current case. sig (if non-empty) is the non-trivial case signature.
func (c *Ctx) End(sig string) {
	c.mu.Lock()
	defer c.mu.Unlock()
	v := "held"
	if c.curViol {
		v = "violated"
	}
	c.sum.Cases++
	if sig != "" {
		c.sigLocked(sig)
	}
	c.emit(&Line{T: "end", Case: c.cur, Verdict: v})
	c.cur = ""
}

// EndInconclusive closes the current case without a verdict.
func (c *Ctx) EndInconclusive(why string) {
	c.mu.Lock()
	defer c.mu.Unlock()
	c.sum.Cases++
	if len(c.sum.Inconclusive) < 20 {
		c.sum.Inconclusive = append(c.sum.Inconclusive, c.cur+": "+why)
	}
	c.sum.Counters["inconclusive_cases"]++
	c.emit(&Line{T: "end", Case: c.cur, Verdict: "inconclusive", Msg: why})
	c.cur = ""
}

func (c *Ctx) sigLocked(sig string) {
	h := sha256.Sum256([]byte(sig))
	c.sigs[binary.BigEndian.Uint64(h[:8])] = struct{}{}
}

// Sig adds a distinct non-trivial signature (may be called many times inside a chunked case).
func (c *Ctx) Sig(sig string) {
	c.mu.Lock()
	c.sigLocked(sig)
	c.mu.Unlock()
}

// Evals counts oracle evaluations.
func (c *Ctx) Evals(n int) {
	c.mu.Lock()
	c.sum.Evaluations += int64(n)
	c.mu.Unlock()
}

func (c *Ctx) Count(key string, n int) {
	c.mu.Lock()
	c.sum.Counters[key] += int64(n)
	c.mu.Unlock()
}

// Max keeps the maximum of a gauge.
func (c *Ctx) Max(key string, n int64) {
	c.mu.Lock()
	if c.sum.Counters[key] < n {
		c.sum.Counters[key] = n
	}
	c.mu.Unlock()
}

// Sample keeps a few actual cases for the evidence file.
func (c *Ctx) Sample(v interface{}) {
	c.mu.Lock()
	defer c.mu.Unlock()
	c.nsamples++
	if len(c.sum.Samples) < 3 {
		var x interface{}
		json.Unmarshal(raw(v), &x)
		c.sum.Samples = append(c.sum.Samples, x)
	}
}

func (c *Ctx) Note(msg string) {
	c.mu.Lock()
	c.emit(&Line{T: "note", Msg: msg})
	c.mu.Unlock()
}

// Close writes the summary line.
func (c *Ctx) Close() {
	c.mu.Lock()
	defer c.mu.Unlock()
	c.sum.Sigs = make([]uint64, 0, len(c.sigs))
	for s := range c.sigs {
		c.sum.Sigs = append(c.sum.Sigs, s)
	}
	sort.Slice(c.sum.Sigs, func(i, j int) bool { return c.sum.Sigs[i] < c.sum.Sigs[j] })
	s := c.sum
	c.emit(&Line{T: "summary", Summary: &s})
	c.w.Flush()
	c.f.Close()
}

// Runner is a property workload.
type Runner func(c *Ctx)

var registry = map[string]Runner{}

func Register(name string, r Runner) { registry[name] = r }
func Lookup(name string) Runner      { return registry[name] }
func Names() []string {
	var n []string
	for k := range registry {
		n = append(n, k)
	}
	sort.Strings(n)
	return n
}

// Guard runs f and converts a panic into a returned description (for cases where a panic is a
// verdict the monitor wants to classify itself rather than a process death).
func Guard(f func()) (p interface{}) {
	if os.Getenv("VERIF_NOGUARD") != "" {
		f()
		return nil
	}
	defer func() {
		if r := recover(); r != nil {
			p = r
		}
	}()
	f()
	return nil
}

// GuardStack is Guard that also returns the stack of the panic (first lines).
func GuardStack(f func()) (p interface{}, stack string) {
	if os.Getenv("VERIF_NOGUARD") != "" {
		f()
		return nil, ""
	}
	defer func() {
		if r := recover(); r != nil {
			p = r
			b := debug.Stack()
			if len(b) > 3000 {
				b = b[:3000]
			}
			stack = string(b)
		}
	}()
	f()
	return nil, ""
}
