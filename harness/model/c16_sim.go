package model

// C16 reference semantics of the frame-tree DSL, written from the Yellow Paper (sections 7-9) and
// EIP-7/140/211/214/684/1014/161: a frame that halts exceptionally or reverts restores the state
// found at its invocation (implemented by deep copy, no journal); value moves before the callee
// runs; CALLCODE/DELEGATECALL run foreign code on the caller's account; below a STATICCALL every
// state-changing instruction halts the executing frame; a creator's nonce bump belongs to the
// creator's frame; SELFDESTRUCT moves the balance, keeps the account alive until the transaction
// is finalised and burns what the account holds then.
//
// Gas is NOT modelled. Instead every frame whose outcome the reference predicts must be given
// provably ample gas: the simulator carries a lower bound of the gas a frame owns (every action
// is charged a generous C16ActionGas, every failing child is assumed to burn its whole allotment,
// CREATE is assumed to keep nothing back for the creator) and declares the program "gas
// uncertain" (to be discarded by the generator) when the bound falls below one action. Frames
// whose terminator fails ("doomed" subtrees) leave no trace whatever gas they get, so they - and
// only they - may be starved with arbitrary allotments; the reference does not look inside.

//
// Native contracts (0x01..0x08) are frames without code of their own: the frame succeeds iff the
// gas it is given covers the contract's price for this input AND the contract accepts the input;
// then the value stays where the CALL moved it and the output is the contract's. Otherwise the
// frame fails like any other: the value transfer and the creation of the callee's account are
// undone and all gas handed to the frame is consumed. Price and function value of a native
// contract are obtained through C16PrecompileGas / C16PrecompileRun (pure functions of the
// input, installed by the harness); frame semantics never come from there. The gas such a frame
// gets is known EXACTLY when the allotment is an explicit non-zero constant (the reference demands
// that the caller can afford it many times over, so no cap applies) plus the 2300 stipend of a
// value-bearing CALL/CALLCODE; for the other allotment modes (and for a zero gas operand, which
// go-youchain's callGas serves with 2300) only a lower bound is known and a price above it makes
// the program gas uncertain.

const C16ActionGas = 250000

const C16CallStipend = 2300

// C16PrecompileGas returns the price of native contract n (1..8) for input; C16PrecompileRun its
// output and whether it accepts the input. Both are pure functions installed by the harness.
var (
	C16PrecompileGas func(n int, input []byte) uint64
	C16PrecompileRun func(n int, input []byte) (out []byte, ok bool)
)

type C16Acct struct {
	Nonce    uint64
	Bal      uint64
	Code     []byte
	CodeHost int      // >=0: dispatcher code of that host
	Stub     *C16Stub // runtime stub deployed by a create frame
	Storage  map[uint64]C16Word
	Suicided bool
}

func (a *C16Acct) Empty() bool { return a.Nonce == 0 && a.Bal == 0 && len(a.Code) == 0 }

type C16Log struct {
	Addr   C16Addr
	Topics []C16Word
	Data   []byte
}

type C16State struct {
	Accts map[C16Addr]*C16Acct
	Logs  []C16Log
	// Ghost is used only when a known defect of the implementation is emulated (see C16Sim.Emulate):
	// the value an account held when it was removed at the end of an earlier transaction.
	Ghost map[C16Addr]uint64
}

func NewC16State() *C16State {
	return &C16State{Accts: map[C16Addr]*C16Acct{}, Ghost: map[C16Addr]uint64{}}
}

func (s *C16State) Copy() *C16State {
	c := &C16State{Accts: make(map[C16Addr]*C16Acct, len(s.Accts)), Logs: append([]C16Log(nil), s.Logs...), Ghost: make(map[C16Addr]uint64, len(s.Ghost))}
	for a, v := range s.Ghost {
		c.Ghost[a] = v
	}
	for a, ac := range s.Accts {
		n := *ac
		n.Storage = make(map[uint64]C16Word, len(ac.Storage))
		for k, v := range ac.Storage {
			n.Storage[k] = v
		}
		c.Accts[a] = &n
	}
	return c
}

func (s *C16State) Total() uint64 {
	var t uint64
	for _, a := range s.Accts {
		t += a.Bal
	}
	return t
}

func (s *C16State) get(a C16Addr) *C16Acct {
	ac := s.Accts[a]
	if ac == nil {
		ac = &C16Acct{CodeHost: -1, Storage: map[uint64]C16Word{}}
		s.Accts[a] = ac
		delete(s.Ghost, a) // a new object takes the place of the removed one
	}
	return ac
}

// C16Identity is the identity precompile.
var C16Identity = C16Addr{19: 4}

type C16TxResult struct {
	OK        bool
	Created   C16Addr   // top-level creation: the new address
	Pre       *C16State // after execution, before finalisation
	Post      *C16State // after finalisation (self-destructed and empty accounts removed)
	Burnt     uint64    // value destroyed by this transaction
	Uncertain bool      // the gas lower bound could not guarantee the predicted outcome
	// FailedValueCalls: callees of value-bearing CALLs whose frame failed in a frame the reference
	// evaluated (the value must be back with the caller)
	FailedValueCalls map[C16Addr]int
	// FailedCreates: addresses of creation frames that failed in a frame the reference evaluated
	FailedCreates map[C16Addr]int
}

type c16sim struct {
	emulate   bool // emulate the known defect "CreateAccount carries over the balance of a REMOVED account"
	p         *C16Program
	st        *C16State
	uncertain bool
	burnt     uint64
	Stats     map[string]int
	Addrs     map[C16Addr]bool
	ret       []byte // output of the last call-kind invocation (empty after a failure of a literal target)
	cur       *C16Tx // the transaction being executed
	pcFail    string // why the native contract entered last failed
	failedVal map[C16Addr]int
	failedCre map[C16Addr]int
}

// c16call: what a call-kind invocation hands to the callee besides value and gas.
type c16call struct {
	input []byte
	exact bool // the gas figure is exact, not a lower bound
}

func (s *c16sim) note(a C16Addr) { s.Addrs[a] = true }

func (s *c16sim) store(ctx C16Addr, slot uint64, v C16Word) {
	ac := s.st.get(ctx)
	if v == (C16Word{}) {
		delete(ac.Storage, slot)
	} else {
		ac.Storage[slot] = v
	}
}

func (s *c16sim) selfdestruct(ctx, benef C16Addr) {
	s.note(benef)
	me := s.st.get(ctx)
	b := me.Bal
	s.st.get(benef).Bal += b
	// the account's balance is zero afterwards; with benef == ctx this destroys b
	if benef == ctx {
		s.burnt += b
		s.Stats["selfdestruct_to_self"]++
	}
	me.Bal = 0
	me.Suicided = true
}

func (s *c16sim) runStub(stub *C16Stub, ctx C16Addr, static bool, a uint64) (bool, uint64) {
	if stub.Kind == C16StubZeros {
		// STOP: succeeds with any gas, in any context
		s.Stats["stub_zeros"]++
		return true, a
	}
	if a < C16ActionGas {
		s.uncertain = true
		return false, 0
	}
	a -= C16ActionGas
	if static {
		s.Stats["static_violation"]++
		return false, 0
	}
	switch stub.Kind {
	case C16StubStore:
		s.store(ctx, stub.Slot, C16WordOf(stub.Val))
	case C16StubKill:
		s.selfdestruct(ctx, stub.Benef)
	case C16StubLog:
		w := C16WordOf(stub.Val)
		s.st.Logs = append(s.st.Logs, C16Log{Addr: ctx, Data: append([]byte(nil), w[:]...)})
	case C16StubRevert:
		s.store(ctx, stub.Slot, C16WordOf(stub.Val))
		return false, a
	}
	s.Stats["stub_"+C16StubNames[stub.Kind]]++
	return true, a
}

// runCode executes whatever code lives at codeAddr on account ctx. node is the frame selected by
// the calldata (nil: no calldata).
func (s *c16sim) runCode(codeAddr C16Addr, node *C16Frame, ctx C16Addr, static bool, a uint64, cd c16call) (bool, uint64) {
	ac := s.st.Accts[codeAddr]
	if n := C16PrecompileIndex(codeAddr); n > 0 {
		// a native contract runs wherever the code of its address is executed (CALL, CALLCODE,
		// DELEGATECALL, STATICCALL); it touches no state, so the context does not matter
		if C16PrecompileGas == nil || C16PrecompileRun == nil {
			s.uncertain = true
			return false, 0
		}
		need := C16PrecompileGas(n, cd.input)
		if a < need {
			if !cd.exact {
				// only a lower bound of the allotment is known: the outcome depends on the allotment rules
				s.uncertain = true
			}
			s.Stats["precompile_call_failed_out_of_gas"]++
			s.Stats["precompile_"+C16PrecompileNames[n]+"_failed_out_of_gas"]++
			s.pcFail = "out_of_gas"
			return false, 0
		}
		out, ok := C16PrecompileRun(n, cd.input)
		if !ok {
			s.Stats["precompile_call_failed_input_rejected"]++
			s.Stats["precompile_"+C16PrecompileNames[n]+"_failed_input_rejected"]++
			s.pcFail = "input_rejected"
			return false, 0
		}
		if cd.exact && a-need < C16CallStipend && a >= C16CallStipend {
			s.Stats["precompile_call_succeeded_thanks_to_stipend_or_by_less_than_2300"]++
		}
		s.Stats["precompile_"+C16PrecompileNames[n]+"_ok"]++
		if len(out) > 0 {
			s.Stats["precompile_call_ok_with_output"]++
		}
		s.ret = append([]byte(nil), out...)
		return true, a - need
	}
	if ac == nil || len(ac.Code) == 0 {
		return true, a
	}
	if ac.Stub != nil {
		return s.runStub(ac.Stub, ctx, static, a)
	}
	if ac.CodeHost >= 0 {
		if node == nil || node.Host != ac.CodeHost {
			// dispatcher jumps to calldata word 0 = 0, not a JUMPDEST
			s.Stats["host_called_without_selector"]++
			return false, 0
		}
		if node.Doomed {
			s.Stats["doomed_subtrees"]++
			return false, 0
		}
		return s.runFrame(node, ctx, static, false, a)
	}
	return true, a
}

func min64(a, b uint64) uint64 {
	if a < b {
		return a
	}
	return b
}

// allot returns lower bounds of (gas handed to the child, gas the caller keeps).
func allot(inv *C16Inv, L uint64) (a, r uint64) {
	switch inv.GasMode {
	case C16GAll:
		a = L - L/64
	case C16GShift:
		a = L >> inv.Shift
	default:
		a = min64(inv.GasConst, L-L/64)
	}
	if inv.Kind == C16KCreate {
		// EIP-150 keeps 1/64 back; an implementation that forwards everything keeps nothing
		return L - L/64, 0
	}
	if inv.Kind == C16KCreate2 {
		return L - L/64, L / 64
	}
	return a, L - a
}

func (s *c16sim) target(inv *C16Inv, created []C16Addr, ctx C16Addr) C16Addr {
	switch inv.Tgt {
	case C16TgtNode:
		return s.p.Hosts[inv.Node.Host]
	case C16TgtCreated:
		return created[inv.Ref]
	case C16TgtSelf:
		return ctx
	}
	return inv.Addr
}

// tgtClass names the kind of callee as the state stands when the call is made.
func (s *c16sim) tgtClass(tgt, ctx C16Addr) string {
	if C16PrecompileIndex(tgt) > 0 {
		return "precompile"
	}
	ac := s.st.Accts[tgt]
	switch {
	case tgt == ctx:
		return "self"
	case ac == nil:
		return "nonexistent"
	case ac.Suicided:
		return "selfdestructed"
	case len(ac.Code) > 0:
		return "contract"
	case ac.Empty():
		return "empty"
	case ac.Nonce > 0:
		return "eoa"
	}
	return "codeless_funded"
}

// C16CallKey: the counter key of a call-kind invocation, shared by the reference and the tracer.
func C16CallKey(kind int, class string, value bool, outcome string) string {
	k := "calls_to_" + class
	switch kind {
	case C16KCallCode:
		k = "callcodes_to_" + class
	case C16KDelegate:
		return "delegatecalls_to_" + class + "_" + outcome
	case C16KStatic:
		return "staticcalls_to_" + class + "_" + outcome
	}
	if value {
		return k + "_with_value_" + outcome
	}
	return k + "_without_value_" + outcome
}

// invoke performs one child invocation of a frame running on ctx. abort: the invoking frame itself
// halts exceptionally (write attempt in a static context).
func (s *c16sim) invoke(inv *C16Inv, ctx C16Addr, static bool, created []C16Addr, L uint64, mem *[]byte) (flag bool, newAddr C16Addr, abort bool, Lout uint64) {
	me := s.st.get(ctx)
	s.ret = nil
	if inv.Kind >= C16KCreate {
		if static {
			s.Stats["static_violation"]++
			return false, newAddr, true, 0
		}
		if inv.Value > me.Bal {
			s.Stats["insufficient_balance"]++
			return false, newAddr, false, L
		}
		a, r := allot(inv, L)
		nonce := me.Nonce
		me.Nonce++
		var addr C16Addr
		if inv.Kind == C16KCreate {
			addr = C16CreateAddr(ctx, nonce)
		} else {
			addr = C16Create2Addr(ctx, inv.Salt, inv.Node.InitCode)
		}
		s.note(addr)
		ok, rem := s.doCreate(addr, inv.Node, inv.Value, ctx, a)
		if !ok {
			return false, C16Addr{}, false, r + rem
		}
		return true, addr, false, r + rem
	}
	tgt := s.target(inv, created, ctx)
	s.note(tgt)
	// the call data of a literal target: the head of the frame's input staging area
	var cd c16call
	if len(inv.Input) > 0 || inv.InSize > 0 {
		if len(*mem) < len(inv.Input) {
			*mem = append(*mem, make([]byte, len(inv.Input)-len(*mem))...)
		}
		copy(*mem, inv.Input)
		cd.input = make([]byte, inv.InSize)
		copy(cd.input, *mem)
	}
	if inv.Kind == C16KCall && static && inv.Value > 0 {
		s.Stats["static_violation"]++
		return false, newAddr, true, 0
	}
	class := s.tgtClass(tgt, ctx)
	hasValue := inv.Value > 0 && (inv.Kind == C16KCall || inv.Kind == C16KCallCode)
	if (inv.Kind == C16KCall || inv.Kind == C16KCallCode) && inv.Value > me.Bal {
		s.Stats["insufficient_balance"]++
		s.Stats[C16CallKey(inv.Kind, class, hasValue, "refused")]++
		return false, newAddr, false, L
	}
	if inv.GasMode == C16GConst && L < inv.GasConst+C16ActionGas {
		// an implementation may charge the requested amount uncapped and fail the CALLER when it cannot pay
		s.uncertain = true
		return false, newAddr, true, 0
	}
	a, r := allot(inv, L)
	// an explicit non-zero constant that the caller can afford many times over is handed on unchanged
	// (what a ZERO gas operand is served with is left to the implementation: go-youchain hands on, and
	// charges, 2300)
	cd.exact = inv.GasMode == C16GConst && inv.GasConst > 0 && a == inv.GasConst
	if hasValue {
		a += C16CallStipend
	}
	var node *C16Frame
	if inv.Tgt == C16TgtNode {
		node = inv.Node
	}
	ok, rem := s.doCall(inv.Kind, tgt, node, inv.Value, ctx, static, a, cd)
	if s.uncertain {
		return ok, newAddr, false, r + rem
	}
	if !ok || class != "precompile" {
		// (the code-less accounts, dispatchers entered without a selector and runtime stubs that the other
		// literal targets lead to return nothing)
		s.ret = nil
	}
	outcome := "ok"
	if !ok {
		outcome = "failed"
		if inv.Kind == C16KCall && inv.Value > 0 {
			s.failedVal[tgt]++
		}
	}
	if !(node != nil && node.Doomed) {
		// (what happens inside a doomed subtree is not predicted, only that it fails)
		s.Stats[C16CallKey(inv.Kind, class, hasValue, outcome)]++
		if class == "precompile" && !ok {
			s.Stats[C16CallKey(inv.Kind, class, hasValue, "failed_"+s.pcFail)]++
		}
		if class == "precompile" && !ok && inv.Kind == C16KCall {
			v := ""
			if hasValue {
				v = "_with_value"
			}
			if s.st.Accts[tgt] == nil {
				s.Stats["failed_calls"+v+"_to_precompile_leaving_it_nonexistent"]++
			} else {
				s.Stats["failed_calls"+v+"_to_precompile_leaving_existing_account_unchanged"]++
			}
		}
	}
	return ok, newAddr, false, r + rem
}

func (s *c16sim) doCall(kind int, tgt C16Addr, node *C16Frame, value uint64, ctx C16Addr, static bool, a uint64, cd c16call) (bool, uint64) {
	snap := s.st.Copy()
	burnt := s.burnt
	cctx := ctx
	switch kind {
	case C16KCall:
		if g := s.st.Ghost[tgt]; s.emulate && s.st.Accts[tgt] == nil && g > 0 {
			s.st.get(tgt).Bal = g
			s.Stats["emulated_resurrections"]++
		}
		s.st.get(ctx).Bal -= value
		s.st.get(tgt).Bal += value
		cctx = tgt
	case C16KStatic:
		cctx = tgt
		static = true
	}
	ok, rem := s.runCode(tgt, node, cctx, static, a, cd)
	if !ok {
		s.st = snap
		s.burnt = burnt
		s.Stats["frames_reverted_by_reference"]++
	}
	return ok, rem
}

func (s *c16sim) doCreate(addr C16Addr, node *C16Frame, value uint64, ctx C16Addr, a uint64) (bool, uint64) {
	if ex := s.st.Accts[addr]; ex != nil && (ex.Nonce != 0 || len(ex.Code) > 0) {
		s.Stats["create_collision"]++
		return false, 0
	}
	snap := s.st.Copy()
	burnt := s.burnt
	bal := uint64(0)
	if ex := s.st.Accts[addr]; ex != nil {
		bal = ex.Bal
		if bal > 0 {
			s.Stats["create_on_prefunded_address"]++
		}
	} else if g := s.st.Ghost[addr]; s.emulate && g > 0 {
		bal = g
		s.Stats["emulated_resurrections"]++
	}
	delete(s.st.Ghost, addr)
	s.st.Accts[addr] = &C16Acct{Nonce: 1, Bal: bal, CodeHost: -1, Storage: map[uint64]C16Word{}}
	s.st.get(ctx).Bal -= value
	s.st.get(addr).Bal += value
	ok, rem := false, uint64(0)
	if node.Doomed {
		s.Stats["doomed_subtrees"]++
	} else {
		ok, rem = s.runFrame(node, addr, false, true, a)
	}
	if ok && s.cur != nil && s.cur.Boundary == node && s.cur.BoundaryFails {
		// the constructor completed but what is left does not pay for the code deposit: the frame fails
		// like any other (everything undone, all its gas consumed; the Homestead rule)
		ok, rem = false, 0
		s.Stats["creates_failing_at_code_deposit"]++
	}
	if ok && node.Term == C16TReturn && node.Stub != nil && len(C16StubCode(node.Stub)) > C16MaxCodeSize {
		// EIP-170: the frame fails, everything undone, all its gas consumed
		ok, rem = false, 0
		s.Stats["creates_failing_code_too_large"]++
	}
	if ok && node.Term == C16TReturn && node.Stub != nil {
		ac := s.st.get(addr)
		ac.Code = C16StubCode(node.Stub)
		ac.Stub = node.Stub
		if !node.Tight {
			dep := uint64(C16ActionGas)
			if d := uint64(200 * len(ac.Code)); d > C16ActionGas/2 {
				dep += d
				s.Stats["creates_depositing_large_code"]++
			}
			if rem < dep {
				s.uncertain = true
			}
			rem -= min64(rem, dep)
		}
		if s.cur != nil && s.cur.Boundary == node {
			s.Stats["creates_with_code_deposit_just_paid"]++
		}
	}
	if !ok {
		s.st = snap
		s.burnt = burnt
		s.Stats["frames_reverted_by_reference"]++
		s.failedCre[addr]++
	}
	return ok, rem
}

// runFrame: a Tight frame runs on gas sized by dry runs; the reference trusts that it is enough for the
// frame to reach its terminator and promises the caller nothing back.
func (s *c16sim) runFrame(f *C16Frame, ctx C16Addr, static bool, isCreate bool, L uint64) (bool, uint64) {
	if f.Tight {
		ok, _ := s.runFrame0(f, ctx, static, isCreate, 1<<60)
		return ok, 0
	}
	return s.runFrame0(f, ctx, static, isCreate, L)
}

func (s *c16sim) runFrame0(f *C16Frame, ctx C16Addr, static bool, isCreate bool, L uint64) (bool, uint64) {
	var created []C16Addr
	var mem []byte // the input staging area of this frame execution
	s.Stats["frames_simulated"]++
	for i := range f.Actions {
		act := &f.Actions[i]
		if L < C16ActionGas {
			s.uncertain = true
			return false, 0
		}
		L -= C16ActionGas
		switch act.Kind {
		case C16ASstore:
			if static {
				s.Stats["static_violation"]++
				return false, 0
			}
			s.store(ctx, act.Slot, C16WordOf(act.Val))
		case C16ALog:
			if static {
				s.Stats["static_violation"]++
				return false, 0
			}
			lg := C16Log{Addr: ctx}
			for t := 0; t < act.NTopics; t++ {
				lg.Topics = append(lg.Topics, C16WordOf(act.Tag+uint64(t)))
			}
			w := C16WordOf(act.Tag)
			lg.Data = append([]byte{}, w[32-act.DataLen:]...)
			s.st.Logs = append(s.st.Logs, lg)
		case C16AInvoke:
			inv := act.Inv
			flag, addr, abort, l2 := s.invoke(inv, ctx, static, created, L, &mem)
			L = l2
			if abort {
				return false, 0
			}
			ret := s.ret
			if inv.Kind >= C16KCreate {
				created = append(created, addr)
				if s.cur != nil && s.cur.Boundary == inv.Node && s.cur.CreatorDies {
					// (calibrated gas) nothing is left for the instruction after the creation
					s.Stats["creators_out_of_gas_right_after_the_boundary_creation"]++
					return false, 0
				}
			}
			if inv.Policy != C16PIgnore {
				if L < C16ActionGas {
					s.uncertain = true
					return false, 0
				}
				L -= C16ActionGas
			}
			switch inv.Policy {
			case C16PRecord:
				if static {
					s.Stats["static_violation"]++
					return false, 0
				}
				if inv.Kind >= C16KCreate {
					s.store(ctx, inv.RecSlot, C16WordOfAddr(addr))
				} else {
					v := C16RecBase(inv)
					if flag {
						v++
					}
					s.store(ctx, inv.RecSlot, C16WordOf(v))
				}
			case C16PRequireOK:
				if !flag {
					s.Stats["require_triggered"]++
					return false, L
				}
			case C16PRequireFail:
				if flag {
					s.Stats["require_triggered"]++
					return false, L
				}
			}
			if inv.OutRec {
				if L < C16ActionGas {
					s.uncertain = true
					return false, 0
				}
				L -= C16ActionGas
				if static {
					s.Stats["static_violation"]++
					return false, 0
				}
				var w C16Word
				copy(w[:], ret)
				s.store(ctx, inv.OutSlot, w)
				s.store(ctx, inv.OutSlot+1, C16WordOf(uint64(len(ret))+1))
				s.Stats["outputs_recorded"]++
				if len(ret) > 0 {
					s.Stats["outputs_recorded_nonempty"]++
				}
			}
		}
	}
	if L < C16ActionGas {
		s.uncertain = true
		return false, 0
	}
	L -= C16ActionGas
	switch f.Term {
	case C16TStop, C16TReturn:
		return true, L
	case C16TSelfdestruct:
		if static {
			s.Stats["static_violation"]++
			return false, 0
		}
		s.selfdestruct(ctx, f.Benef)
		s.Stats["selfdestruct_in_surviving_or_pending_frame"]++
		return true, L
	case C16TRevert:
		return false, L
	}
	return false, 0
}

// C16Sim runs the transactions of p one after the other on a copy of pre.
type C16Sim struct {
	s *c16sim
}

func NewC16Sim(p *C16Program, pre *C16State) *C16Sim {
	return &C16Sim{s: &c16sim{p: p, st: pre.Copy(), Stats: map[string]int{}, Addrs: map[C16Addr]bool{}, failedVal: map[C16Addr]int{}, failedCre: map[C16Addr]int{}}}
}

// Emulate switches on the emulation of the known defect (used only to ATTRIBUTE a deviation from the
// specified behaviour to that defect, never to excuse one).
func (m *C16Sim) Emulate() { m.s.emulate = true }

// Ghost returns a copy of the emulation's memory of removed accounts' balances.
func (m *C16Sim) Ghost() map[C16Addr]uint64 {
	out := map[C16Addr]uint64{}
	for a, v := range m.s.st.Ghost {
		out[a] = v
	}
	return out
}

// Reopened tells the simulator that the implementation's state object was re-created from its tries.
func (m *C16Sim) Reopened() { m.s.st.Ghost = map[C16Addr]uint64{} }

func (m *C16Sim) Stats() map[string]int   { return m.s.Stats }
func (m *C16Sim) Addrs() map[C16Addr]bool { return m.s.Addrs }

// Tx executes transaction i and finalises it.
func (m *C16Sim) Tx(i int) *C16TxResult {
	s := m.s
	tx := s.p.Txs[i]
	s.uncertain = false
	s.burnt = 0
	s.st.Logs = nil
	s.failedVal = map[C16Addr]int{}
	s.failedCre = map[C16Addr]int{}
	s.cur = tx
	res := &C16TxResult{}
	origin := s.p.Origin
	s.note(origin)
	if s.st.get(origin).Bal < tx.Value {
		res.Uncertain = true
		return res
	}
	if tx.Direct != nil {
		// a literal callee at top level: exactly tx.Gas, no stipend (that is the CALL instruction's)
		tgt := tx.Direct.Addr
		s.note(tgt)
		class := s.tgtClass(tgt, origin)
		ok, _ := s.doCall(C16KCall, tgt, nil, tx.Value, origin, false, tx.Gas, c16call{input: tx.Direct.CallData(), exact: true})
		res.OK = ok
		outcome := "ok"
		if !ok {
			outcome = "failed"
			if tx.Value > 0 {
				s.failedVal[tgt]++
			}
			if class == "precompile" {
				s.Stats["toplevel_"+C16CallKey(C16KCall, class, tx.Value > 0, "failed_"+s.pcFail)]++
			}
		}
		s.Stats["toplevel_"+C16CallKey(C16KCall, class, tx.Value > 0, outcome)]++
	} else if tx.Create {
		me := s.st.get(origin)
		nonce := me.Nonce
		me.Nonce++
		addr := C16CreateAddr(origin, nonce)
		s.note(addr)
		ok, _ := s.doCreate(addr, tx.Root, tx.Value, origin, tx.Gas)
		res.OK = ok
		if ok {
			res.Created = addr
		}
	} else {
		tgt := s.p.Hosts[tx.Root.Host]
		s.note(tgt)
		ok, _ := s.doCall(C16KCall, tgt, tx.Root, tx.Value, origin, false, tx.Gas, c16call{})
		res.OK = ok
	}
	res.Uncertain = s.uncertain
	res.FailedValueCalls = s.failedVal
	res.FailedCreates = s.failedCre
	res.Pre = s.st.Copy()
	// finalisation: self-destructed accounts disappear with whatever they hold, empty accounts are dropped
	for a, ac := range s.st.Accts {
		if ac.Suicided {
			s.burnt += ac.Bal
			if ac.Bal > 0 {
				s.Stats["value_sent_to_selfdestructed_account"]++
				s.st.Ghost[a] = ac.Bal
			}
			delete(s.st.Accts, a)
		} else if ac.Empty() {
			delete(s.st.Accts, a)
		}
	}
	res.Burnt = s.burnt
	res.Post = s.st.Copy()
	return res
}
