package model

// C16 reference semantics of the frame-tree DSL, written from the Yellow Paper (sections 7-9) and
// EIP-7/140/211/214/684/1014/161: a frame that halts exceptionally or reverts restores the state
// found at its invocation (implemented by deep copy, no journal); value moves before the callee
// runs; CALLCODE/DELEGATECALL run foreign code on the caller's account; below a STATICCALL every
// state-changing instruction halts the executing frame; a creator's nonce bump belongs to the
// creator's frame; SELFDESTRUCT moves the balance, keeps the account alive until the transaction
// is finalised and burns what the account holds then.
//
// Gas is NOT modelled. Instead every frame whose outcome the reference predicts must be given
// provably ample gas: the simulator carries a lower bound of the gas a frame owns (every action
// is charged a generous C16ActionGas, every failing child is assumed to burn its whole allotment,
// CREATE is assumed to keep nothing back for the creator) and declares the program "gas
// uncertain" (to be discarded by the generator) when the bound falls below one action. Frames
// whose terminator fails ("doomed" subtrees) leave no trace whatever gas they get, so they - and
// only they - may be starved with arbitrary allotments; the reference does not look inside.

const C16ActionGas = 250000

type C16Acct struct {
	Nonce    uint64
	Bal      uint64
	Code     []byte
	CodeHost int      // >=0: dispatcher code of that host
	Stub     *C16Stub // runtime stub deployed by a create frame
	Storage  map[uint64]C16Word
	Suicided bool
}

func (a *C16Acct) Empty() bool { return a.Nonce == 0 && a.Bal == 0 && len(a.Code) == 0 }

type C16Log struct {
	Addr   C16Addr
	Topics []C16Word
	Data   []byte
}

type C16State struct {
	Accts map[C16Addr]*C16Acct
	Logs  []C16Log
	// Ghost is used only when a known defect of the implementation is emulated (see C16Sim.Emulate):
	// the value an account held when it was removed at the end of an earlier transaction.
	Ghost map[C16Addr]uint64
}

func NewC16State() *C16State {
	return &C16State{Accts: map[C16Addr]*C16Acct{}, Ghost: map[C16Addr]uint64{}}
}

func (s *C16State) Copy() *C16State {
	c := &C16State{Accts: make(map[C16Addr]*C16Acct, len(s.Accts)), Logs: append([]C16Log(nil), s.Logs...), Ghost: make(map[C16Addr]uint64, len(s.Ghost))}
	for a, v := range s.Ghost {
		c.Ghost[a] = v
	}
	for a, ac := range s.Accts {
		n := *ac
		n.Storage = make(map[uint64]C16Word, len(ac.Storage))
		for k, v := range ac.Storage {
			n.Storage[k] = v
		}
		c.Accts[a] = &n
	}
	return c
}

func (s *C16State) Total() uint64 {
	var t uint64
	for _, a := range s.Accts {
		t += a.Bal
	}
	return t
}

func (s *C16State) get(a C16Addr) *C16Acct {
	ac := s.Accts[a]
	if ac == nil {
		ac = &C16Acct{CodeHost: -1, Storage: map[uint64]C16Word{}}
		s.Accts[a] = ac
		delete(s.Ghost, a) // a new object takes the place of the removed one
	}
	return ac
}

// C16Identity is the only precompile the generator uses as a call target.
var C16Identity = C16Addr{19: 4}

type C16TxResult struct {
	OK        bool
	Created   C16Addr   // top-level creation: the new address
	Pre       *C16State // after execution, before finalisation
	Post      *C16State // after finalisation (self-destructed and empty accounts removed)
	Burnt     uint64    // value destroyed by this transaction
	Uncertain bool      // the gas lower bound could not guarantee the predicted outcome
}

type c16sim struct {
	emulate   bool // emulate the known defect "CreateAccount carries over the balance of a REMOVED account"
	p         *C16Program
	st        *C16State
	uncertain bool
	burnt     uint64
	Stats     map[string]int
	Addrs     map[C16Addr]bool
}

func (s *c16sim) note(a C16Addr) { s.Addrs[a] = true }

func (s *c16sim) store(ctx C16Addr, slot uint64, v C16Word) {
	ac := s.st.get(ctx)
	if v == (C16Word{}) {
		delete(ac.Storage, slot)
	} else {
		ac.Storage[slot] = v
	}
}

func (s *c16sim) selfdestruct(ctx, benef C16Addr) {
	s.note(benef)
	me := s.st.get(ctx)
	b := me.Bal
	s.st.get(benef).Bal += b
	// the account's balance is zero afterwards; with benef == ctx this destroys b
	if benef == ctx {
		s.burnt += b
		s.Stats["selfdestruct_to_self"]++
	}
	me.Bal = 0
	me.Suicided = true
}

func (s *c16sim) runStub(stub *C16Stub, ctx C16Addr, static bool, a uint64) (bool, uint64) {
	if a < C16ActionGas {
		s.uncertain = true
		return false, 0
	}
	a -= C16ActionGas
	if static {
		s.Stats["static_violation"]++
		return false, 0
	}
	switch stub.Kind {
	case C16StubStore:
		s.store(ctx, stub.Slot, C16WordOf(stub.Val))
	case C16StubKill:
		s.selfdestruct(ctx, stub.Benef)
	case C16StubLog:
		w := C16WordOf(stub.Val)
		s.st.Logs = append(s.st.Logs, C16Log{Addr: ctx, Data: append([]byte(nil), w[:]...)})
	case C16StubRevert:
		s.store(ctx, stub.Slot, C16WordOf(stub.Val))
		return false, a
	}
	s.Stats["stub_"+C16StubNames[stub.Kind]]++
	return true, a
}

// runCode executes whatever code lives at codeAddr on account ctx. node is the frame selected by
// the calldata (nil: no calldata).
func (s *c16sim) runCode(codeAddr C16Addr, node *C16Frame, ctx C16Addr, static bool, a uint64) (bool, uint64) {
	ac := s.st.Accts[codeAddr]
	if codeAddr == C16Identity {
		// identity precompile on empty input: 15 gas. The generator offers either far too little (< 15,
		// no stipend) or plenty, so the outcome does not depend on how an allotment is computed.
		if a < 15 {
			s.Stats["precompile_call_failed_out_of_gas"]++
			return false, 0
		}
		if a < 2300 {
			s.uncertain = true
		}
		return true, a - min64(a, 1000)
	}
	if ac == nil || len(ac.Code) == 0 {
		return true, a
	}
	if ac.Stub != nil {
		return s.runStub(ac.Stub, ctx, static, a)
	}
	if ac.CodeHost >= 0 {
		if node == nil || node.Host != ac.CodeHost {
			// dispatcher jumps to calldata word 0 = 0, not a JUMPDEST
			s.Stats["host_called_without_selector"]++
			return false, 0
		}
		if node.Doomed {
			s.Stats["doomed_subtrees"]++
			return false, 0
		}
		return s.runFrame(node, ctx, static, false, a)
	}
	return true, a
}

func min64(a, b uint64) uint64 {
	if a < b {
		return a
	}
	return b
}

// allot returns lower bounds of (gas handed to the child, gas the caller keeps).
func allot(inv *C16Inv, L uint64) (a, r uint64) {
	switch inv.GasMode {
	case C16GAll:
		a = L - L/64
	case C16GShift:
		a = L >> inv.Shift
	default:
		a = min64(inv.GasConst, L-L/64)
	}
	if inv.Kind == C16KCreate {
		// EIP-150 keeps 1/64 back; an implementation that forwards everything keeps nothing
		return L - L/64, 0
	}
	if inv.Kind == C16KCreate2 {
		return L - L/64, L / 64
	}
	return a, L - a
}

func (s *c16sim) target(inv *C16Inv, created []C16Addr) C16Addr {
	switch inv.Tgt {
	case C16TgtNode:
		return s.p.Hosts[inv.Node.Host]
	case C16TgtCreated:
		return created[inv.Ref]
	}
	return inv.Addr
}

// invoke performs one child invocation of a frame running on ctx. abort: the invoking frame itself
// halts exceptionally (write attempt in a static context).
func (s *c16sim) invoke(inv *C16Inv, ctx C16Addr, static bool, created []C16Addr, L uint64) (flag bool, newAddr C16Addr, abort bool, Lout uint64) {
	me := s.st.get(ctx)
	if inv.Kind >= C16KCreate {
		if static {
			s.Stats["static_violation"]++
			return false, newAddr, true, 0
		}
		if inv.Value > me.Bal {
			s.Stats["insufficient_balance"]++
			return false, newAddr, false, L
		}
		a, r := allot(inv, L)
		nonce := me.Nonce
		me.Nonce++
		var addr C16Addr
		if inv.Kind == C16KCreate {
			addr = C16CreateAddr(ctx, nonce)
		} else {
			addr = C16Create2Addr(ctx, inv.Salt, inv.Node.InitCode)
		}
		s.note(addr)
		ok, rem := s.doCreate(addr, inv.Node, inv.Value, ctx, a)
		if !ok {
			return false, C16Addr{}, false, r + rem
		}
		return true, addr, false, r + rem
	}
	tgt := s.target(inv, created)
	s.note(tgt)
	if inv.Kind == C16KCall && static && inv.Value > 0 {
		s.Stats["static_violation"]++
		return false, newAddr, true, 0
	}
	if (inv.Kind == C16KCall || inv.Kind == C16KCallCode) && inv.Value > me.Bal {
		s.Stats["insufficient_balance"]++
		return false, newAddr, false, L
	}
	if inv.GasMode == C16GConst && L < inv.GasConst+C16ActionGas {
		// an implementation may charge the requested amount uncapped and fail the CALLER when it cannot pay
		s.uncertain = true
		return false, newAddr, true, 0
	}
	a, r := allot(inv, L)
	if inv.Value > 0 && (inv.Kind == C16KCall || inv.Kind == C16KCallCode) {
		a += 2300 // call stipend
	}
	var node *C16Frame
	if inv.Tgt == C16TgtNode {
		node = inv.Node
	}
	ok, rem := s.doCall(inv.Kind, tgt, node, inv.Value, ctx, static, a)
	return ok, newAddr, false, r + rem
}

func (s *c16sim) doCall(kind int, tgt C16Addr, node *C16Frame, value uint64, ctx C16Addr, static bool, a uint64) (bool, uint64) {
	snap := s.st.Copy()
	burnt := s.burnt
	cctx := ctx
	switch kind {
	case C16KCall:
		if g := s.st.Ghost[tgt]; s.emulate && s.st.Accts[tgt] == nil && g > 0 {
			s.st.get(tgt).Bal = g
			s.Stats["emulated_resurrections"]++
		}
		s.st.get(ctx).Bal -= value
		s.st.get(tgt).Bal += value
		cctx = tgt
	case C16KStatic:
		cctx = tgt
		static = true
	}
	ok, rem := s.runCode(tgt, node, cctx, static, a)
	if !ok {
		s.st = snap
		s.burnt = burnt
		s.Stats["frames_reverted_by_reference"]++
	}
	return ok, rem
}

func (s *c16sim) doCreate(addr C16Addr, node *C16Frame, value uint64, ctx C16Addr, a uint64) (bool, uint64) {
	if ex := s.st.Accts[addr]; ex != nil && (ex.Nonce != 0 || len(ex.Code) > 0) {
		s.Stats["create_collision"]++
		return false, 0
	}
	snap := s.st.Copy()
	burnt := s.burnt
	bal := uint64(0)
	if ex := s.st.Accts[addr]; ex != nil {
		bal = ex.Bal
		if bal > 0 {
			s.Stats["create_on_prefunded_address"]++
		}
	} else if g := s.st.Ghost[addr]; s.emulate && g > 0 {
		bal = g
		s.Stats["emulated_resurrections"]++
	}
	delete(s.st.Ghost, addr)
	s.st.Accts[addr] = &C16Acct{Nonce: 1, Bal: bal, CodeHost: -1, Storage: map[uint64]C16Word{}}
	s.st.get(ctx).Bal -= value
	s.st.get(addr).Bal += value
	ok, rem := false, uint64(0)
	if node.Doomed {
		s.Stats["doomed_subtrees"]++
	} else {
		ok, rem = s.runFrame(node, addr, false, true, a)
	}
	if ok && node.Term == C16TReturn && node.Stub != nil {
		ac := s.st.get(addr)
		ac.Code = C16StubCode(node.Stub)
		ac.Stub = node.Stub
		if rem < C16ActionGas {
			s.uncertain = true
		}
		rem -= min64(rem, C16ActionGas)
	}
	if !ok {
		s.st = snap
		s.burnt = burnt
		s.Stats["frames_reverted_by_reference"]++
	}
	return ok, rem
}

func (s *c16sim) runFrame(f *C16Frame, ctx C16Addr, static bool, isCreate bool, L uint64) (bool, uint64) {
	var created []C16Addr
	s.Stats["frames_simulated"]++
	for i := range f.Actions {
		act := &f.Actions[i]
		if L < C16ActionGas {
			s.uncertain = true
			return false, 0
		}
		L -= C16ActionGas
		switch act.Kind {
		case C16ASstore:
			if static {
				s.Stats["static_violation"]++
				return false, 0
			}
			s.store(ctx, act.Slot, C16WordOf(act.Val))
		case C16ALog:
			if static {
				s.Stats["static_violation"]++
				return false, 0
			}
			lg := C16Log{Addr: ctx}
			for t := 0; t < act.NTopics; t++ {
				lg.Topics = append(lg.Topics, C16WordOf(act.Tag+uint64(t)))
			}
			w := C16WordOf(act.Tag)
			lg.Data = append([]byte{}, w[32-act.DataLen:]...)
			s.st.Logs = append(s.st.Logs, lg)
		case C16AInvoke:
			inv := act.Inv
			flag, addr, abort, l2 := s.invoke(inv, ctx, static, created, L)
			L = l2
			if abort {
				return false, 0
			}
			if inv.Kind >= C16KCreate {
				created = append(created, addr)
			}
			if inv.Policy != C16PIgnore {
				if L < C16ActionGas {
					s.uncertain = true
					return false, 0
				}
				L -= C16ActionGas
			}
			switch inv.Policy {
			case C16PRecord:
				if static {
					s.Stats["static_violation"]++
					return false, 0
				}
				if inv.Kind >= C16KCreate {
					s.store(ctx, inv.RecSlot, C16WordOfAddr(addr))
				} else {
					v := C16RecBase(inv)
					if flag {
						v++
					}
					s.store(ctx, inv.RecSlot, C16WordOf(v))
				}
			case C16PRequireOK:
				if !flag {
					s.Stats["require_triggered"]++
					return false, L
				}
			case C16PRequireFail:
				if flag {
					s.Stats["require_triggered"]++
					return false, L
				}
			}
		}
	}
	if L < C16ActionGas {
		s.uncertain = true
		return false, 0
	}
	L -= C16ActionGas
	switch f.Term {
	case C16TStop, C16TReturn:
		return true, L
	case C16TSelfdestruct:
		if static {
			s.Stats["static_violation"]++
			return false, 0
		}
		s.selfdestruct(ctx, f.Benef)
		s.Stats["selfdestruct_in_surviving_or_pending_frame"]++
		return true, L
	case C16TRevert:
		return false, L
	}
	return false, 0
}

// C16Sim runs the transactions of p one after the other on a copy of pre.
type C16Sim struct {
	s *c16sim
}

func NewC16Sim(p *C16Program, pre *C16State) *C16Sim {
	return &C16Sim{s: &c16sim{p: p, st: pre.Copy(), Stats: map[string]int{}, Addrs: map[C16Addr]bool{}}}
}

// Emulate switches on the emulation of the known defect (used only to ATTRIBUTE a deviation from the
// specified behaviour to that defect, never to excuse one).
func (m *C16Sim) Emulate() { m.s.emulate = true }

// Ghost returns a copy of the emulation's memory of removed accounts' balances.
func (m *C16Sim) Ghost() map[C16Addr]uint64 {
	out := map[C16Addr]uint64{}
	for a, v := range m.s.st.Ghost {
		out[a] = v
	}
	return out
}

// Reopened tells the simulator that the implementation's state object was re-created from its tries.
func (m *C16Sim) Reopened() { m.s.st.Ghost = map[C16Addr]uint64{} }

func (m *C16Sim) Stats() map[string]int   { return m.s.Stats }
func (m *C16Sim) Addrs() map[C16Addr]bool { return m.s.Addrs }

// Tx executes transaction i and finalises it.
func (m *C16Sim) Tx(i int) *C16TxResult {
	s := m.s
	tx := s.p.Txs[i]
	s.uncertain = false
	s.burnt = 0
	s.st.Logs = nil
	res := &C16TxResult{}
	origin := s.p.Origin
	s.note(origin)
	if s.st.get(origin).Bal < tx.Value {
		res.Uncertain = true
		return res
	}
	if tx.Create {
		me := s.st.get(origin)
		nonce := me.Nonce
		me.Nonce++
		addr := C16CreateAddr(origin, nonce)
		s.note(addr)
		ok, _ := s.doCreate(addr, tx.Root, tx.Value, origin, tx.Gas)
		res.OK = ok
		if ok {
			res.Created = addr
		}
	} else {
		tgt := s.p.Hosts[tx.Root.Host]
		s.note(tgt)
		ok, _ := s.doCall(C16KCall, tgt, tx.Root, tx.Value, origin, false, tx.Gas)
		res.OK = ok
	}
	res.Uncertain = s.uncertain
	res.Pre = s.st.Copy()
	// finalisation: self-destructed accounts disappear with whatever they hold, empty accounts are dropped
	for a, ac := range s.st.Accts {
		if ac.Suicided {
			s.burnt += ac.Bal
			if ac.Bal > 0 {
				s.Stats["value_sent_to_selfdestructed_account"]++
				s.st.Ghost[a] = ac.Bal
			}
			delete(s.st.Accts, a)
		} else if ac.Empty() {
			delete(s.st.Accts, a)
		}
	}
	res.Burnt = s.burnt
	res.Post = s.st.Copy()
	return res
}
