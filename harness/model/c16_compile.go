package model

// C16 DSL -> EVM bytecode. Every PUSH has a fixed width, so code sizes do not depend on the values
// pushed and the layout can be computed in a first pass with placeholder operands.
//
// Host code:   PUSH1 0 CALLDATALOAD JUMP | section(node) ...   each section starts with JUMPDEST;
//              the caller passes the section offset as the only calldata word.
// Init code:   PUSH1 0 POP | body | data (init code of nested creates, runtime stub)
// Memory map:  0x00 calldata word, 0x20 LOG data word, 0x40.. addresses returned by creates,
//              0xc0 output word of a literal call with an output record,
//              0x100.. init code / runtime code staging area,
//              0x10000.. input staging area of calls to native contracts.

import (
	"fmt"
)

const (
	opSTOP         = 0x00
	opADD          = 0x01
	opISZERO       = 0x15
	opSHR          = 0x1c
	opADDRESS      = 0x30
	opCALLDATALOAD = 0x35
	opCODECOPY     = 0x39
	opRETURNDATASZ = 0x3d
	opPOP          = 0x50
	opMLOAD        = 0x51
	opMSTORE       = 0x52
	opSSTORE       = 0x55
	opJUMP         = 0x56
	opJUMPI        = 0x57
	opGAS          = 0x5a
	opJUMPDEST     = 0x5b
	opPUSH1        = 0x60
	opDUP1         = 0x80
	opLOG0         = 0xa0
	opCREATE       = 0xf0
	opCALL         = 0xf1
	opCALLCODE     = 0xf2
	opRETURN       = 0xf3
	opDELEGATECALL = 0xf4
	opCREATE2      = 0xf5
	opSTATICCALL   = 0xfa
	opREVERT       = 0xfd
	opINVALID      = 0xfe
	opSELFDESTRUCT = 0xff
)

const (
	c16MemCalldata = 0x00
	c16MemLog      = 0x20
	c16MemCreated  = 0x40
	c16MemOut      = 0xc0
	c16MemStage    = 0x100
	c16MemInput    = 0x10000
	C16MaxInput    = 0x8000 // largest call data of a literal call
	C16MaxCreates  = 4      // per frame (slots in the created-address area)
)

type c16fix struct{ pos, label int }

type c16asm struct {
	b   []byte
	fix []c16fix
	lab []int
}

func (a *c16asm) op(o ...byte) { a.b = append(a.b, o...) }
func (a *c16asm) push(n int, v uint64) {
	a.b = append(a.b, byte(opPUSH1+n-1))
	for i := n - 1; i >= 0; i-- {
		if i >= 8 {
			a.b = append(a.b, 0)
		} else {
			a.b = append(a.b, byte(v>>(8*uint(i))))
		}
	}
}
func (a *c16asm) pushBytes(b []byte) {
	a.b = append(a.b, byte(opPUSH1+len(b)-1))
	a.b = append(a.b, b...)
}
func (a *c16asm) newLabel() int { a.lab = append(a.lab, -1); return len(a.lab) - 1 }
func (a *c16asm) mark(l int)    { a.lab[l] = len(a.b) }
func (a *c16asm) pushLabel(l int) {
	a.b = append(a.b, opPUSH1+1, 0, 0)
	a.fix = append(a.fix, c16fix{len(a.b) - 2, l})
}
func (a *c16asm) resolve(base int) ([]byte, error) {
	out := append([]byte{}, a.b...)
	for _, f := range a.fix {
		v := base + a.lab[f.label]
		if a.lab[f.label] < 0 || v > 0xffff {
			return nil, fmt.Errorf("label out of range")
		}
		out[f.pos] = byte(v >> 8)
		out[f.pos+1] = byte(v)
	}
	return out, nil
}

// C16StubCode is the runtime code a create frame deploys.
func C16StubCode(s *C16Stub) []byte {
	a := &c16asm{}
	switch s.Kind {
	case C16StubZeros:
		return make([]byte, s.Size)
	case C16StubStore:
		a.push(8, s.Val)
		a.push(1, s.Slot)
		a.op(opSSTORE, opSTOP)
	case C16StubKill:
		a.pushBytes(s.Benef[:])
		a.op(opSELFDESTRUCT)
	case C16StubLog:
		a.push(8, s.Val)
		a.push(1, 0)
		a.op(opMSTORE)
		a.push(1, 32)
		a.push(1, 0)
		a.op(opLOG0, opSTOP)
	case C16StubRevert:
		a.push(8, s.Val)
		a.push(1, s.Slot)
		a.op(opSSTORE)
		a.push(1, 0)
		a.push(1, 0)
		a.op(opREVERT)
	}
	return a.b
}

// C16Create2Addr: EIP-1014.
func C16Create2Addr(creator C16Addr, salt uint64, initcode []byte) (out C16Addr) {
	s := C16WordOf(salt)
	h := Keccak256([]byte{0xff}, creator[:], s[:], Keccak256(initcode))
	copy(out[:], h[12:])
	return
}

// C16CreateAddr: keccak(rlp([sender, nonce]))[12:].
func C16CreateAddr(creator C16Addr, nonce uint64) (out C16Addr) {
	h := Keccak256(RlpList(RlpBytes(creator[:]), RlpUint(nonce)))
	copy(out[:], h[12:])
	return
}

type c16compiler struct {
	p     *C16Program
	final bool // second pass: section offsets are known
	err   error
	init  map[*C16Frame]bool
}

func (c *c16compiler) fail(err error) {
	if c.err == nil {
		c.err = err
	}
}

func (c *c16compiler) gas(a *c16asm, inv *C16Inv) {
	switch inv.GasMode {
	case C16GAll:
		a.op(opGAS)
	case C16GShift:
		a.op(opGAS)
		a.push(1, uint64(inv.Shift))
		a.op(opSHR)
	default:
		a.push(8, inv.GasConst)
	}
}

func (c *c16compiler) policy(a *c16asm, inv *C16Inv, create bool) {
	switch inv.Policy {
	case C16PIgnore:
		a.op(opPOP)
	case C16PRecord:
		if !create {
			// value = 2*(id+1) + flag, never zero
			a.push(4, C16RecBase(inv))
			a.op(opADD)
		}
		a.push(1, inv.RecSlot)
		a.op(opSSTORE)
	case C16PRequireOK, C16PRequireFail:
		if inv.Policy == C16PRequireFail {
			a.op(opISZERO)
		}
		l := a.newLabel()
		a.pushLabel(l)
		a.op(opJUMPI)
		a.push(1, 0)
		a.push(1, 0)
		a.op(opREVERT)
		a.mark(l)
		a.op(opJUMPDEST)
	}
}

// C16RecBase: the value a record policy stores for a call-kind invocation is C16RecBase+flag.
func C16RecBase(inv *C16Inv) uint64 {
	id := 0
	switch inv.Tgt {
	case C16TgtNode:
		id = inv.Node.ID
	case C16TgtCreate2Of:
		id = inv.Of.ID
	}
	return uint64(2*(id+1)) + 0x10000*uint64(inv.Kind+1)
}

func (c *c16compiler) frame(f *C16Frame, isCreate bool) *c16asm {
	a := &c16asm{}
	if isCreate {
		a.push(1, 0)
		a.op(opPOP)
	} else {
		a.op(opJUMPDEST)
	}
	type blob struct {
		label int
		data  []byte
	}
	var blobs []blob
	ncreate := 0
	for i := range f.Actions {
		act := &f.Actions[i]
		switch act.Kind {
		case C16ASstore:
			a.push(8, act.Val)
			a.push(1, act.Slot)
			a.op(opSSTORE)
		case C16ALog:
			a.push(8, act.Tag)
			a.push(1, c16MemLog)
			a.op(opMSTORE)
			for t := act.NTopics - 1; t >= 0; t-- {
				a.push(8, act.Tag+uint64(t))
			}
			a.push(1, uint64(act.DataLen))
			a.push(1, uint64(c16MemLog+32-act.DataLen))
			a.op(byte(opLOG0 + act.NTopics))
		case C16AInvoke:
			inv := act.Inv
			if inv.Kind >= C16KCreate {
				if inv.Tgt != C16TgtNode || ncreate >= C16MaxCreates {
					c.fail(fmt.Errorf("bad create invocation"))
					return a
				}
				code := c.initCode(inv.Node)
				l := a.newLabel()
				blobs = append(blobs, blob{l, code})
				a.push(2, uint64(len(code)))
				a.pushLabel(l)
				a.push(2, c16MemStage)
				a.op(opCODECOPY)
				if inv.Kind == C16KCreate2 {
					a.push(8, inv.Salt)
				}
				a.push(2, uint64(len(code)))
				a.push(2, c16MemStage)
				a.push(8, inv.Value)
				if inv.Kind == C16KCreate {
					a.op(opCREATE)
				} else {
					a.op(opCREATE2)
				}
				a.op(opDUP1)
				a.push(1, uint64(c16MemCreated+32*ncreate))
				a.op(opMSTORE)
				ncreate++
				c.policy(a, inv, true)
				continue
			}
			insize := uint64(0)
			literal := inv.Tgt == C16TgtPlain || inv.Tgt == C16TgtSelf
			if !literal && (inv.InSize > 0 || len(inv.Input) > 0 || inv.OutRec) {
				c.fail(fmt.Errorf("call data / output record on a non-literal target"))
				return a
			}
			if inv.InSize > C16MaxInput || len(inv.Input) > C16MaxInput {
				c.fail(fmt.Errorf("call data too large"))
				return a
			}
			if inv.Tgt == C16TgtNode {
				insize = 32
				dest := 0
				if c.final {
					dest = inv.Node.Dest
				}
				a.push(2, uint64(dest))
				a.push(1, c16MemCalldata)
				a.op(opMSTORE)
			}
			if len(inv.Input) > 0 {
				l := a.newLabel()
				// arbitrary bytes: 33 trailing STOPs re-synchronise the JUMPDEST analysis, whatever PUSH the data
				// may end in, before the next section's JUMPDEST
				blobs = append(blobs, blob{l, append(append([]byte{}, inv.Input...), make([]byte, 33)...)})
				a.push(2, uint64(len(inv.Input)))
				a.pushLabel(l)
				a.push(3, c16MemInput)
				a.op(opCODECOPY)
			}
			if inv.OutRec {
				a.push(1, 0)
				a.push(1, c16MemOut)
				a.op(opMSTORE)
				a.push(1, 32)        // retSize
				a.push(1, c16MemOut) // retOffset
			} else {
				a.push(1, 0) // retSize
				a.push(1, 0) // retOffset
			}
			if inv.InSize > 0 {
				a.push(2, uint64(inv.InSize))
				a.push(3, c16MemInput)
			} else {
				a.push(1, insize) // inSize
				a.push(1, c16MemCalldata)
			}
			if inv.Kind == C16KCall || inv.Kind == C16KCallCode {
				a.push(8, inv.Value)
			}
			switch inv.Tgt {
			case C16TgtNode:
				h := c.p.Hosts[inv.Node.Host]
				a.pushBytes(h[:])
			case C16TgtPlain:
				a.pushBytes(inv.Addr[:])
			case C16TgtSelf:
				a.op(opADDRESS)
			case C16TgtCreated:
				if inv.Ref >= ncreate {
					c.fail(fmt.Errorf("created-ref before create"))
					return a
				}
				a.push(1, uint64(c16MemCreated+32*inv.Ref))
				a.op(opMLOAD)
			case C16TgtCreate2Of:
				var ad C16Addr
				if c.final {
					if isCreate {
						c.fail(fmt.Errorf("create2-address reference inside init code"))
						return a
					}
					ad = C16Create2Addr(inv.Creator, inv.Salt, c.initCode(inv.Of))
					inv.Addr = ad
				}
				a.pushBytes(ad[:])
			}
			c.gas(a, inv)
			a.op([]byte{opCALL, opCALLCODE, opDELEGATECALL, opSTATICCALL}[inv.Kind])
			c.policy(a, inv, false)
			if inv.OutRec {
				a.push(1, c16MemOut)
				a.op(opMLOAD)
				a.push(1, inv.OutSlot)
				a.op(opSSTORE)
				a.op(opRETURNDATASZ)
				a.push(1, 1)
				a.op(opADD)
				a.push(1, inv.OutSlot+1)
				a.op(opSSTORE)
			}
		}
	}
	switch f.Term {
	case C16TStop:
		a.op(opSTOP)
	case C16TReturn:
		if isCreate {
			code := []byte{}
			if f.Stub != nil {
				code = C16StubCode(f.Stub)
			}
			l := a.newLabel()
			blobs = append(blobs, blob{l, code})
			a.push(2, uint64(len(code)))
			a.pushLabel(l)
			a.push(2, c16MemStage)
			a.op(opCODECOPY)
			a.push(2, uint64(len(code)))
			a.push(2, c16MemStage)
			a.op(opRETURN)
		} else {
			a.push(1, 32)
			a.push(1, 0)
			a.op(opRETURN)
		}
	case C16TRevert:
		a.push(1, 32)
		a.push(1, 0)
		a.op(opREVERT)
	case C16TInvalid:
		a.op(opINVALID)
	case C16TBomb:
		a.op(opPUSH1 + 31)
		for i := 0; i < 32; i++ {
			a.op(0xff)
		}
		a.op(opMLOAD)
	case C16TUnderflow:
		a.op(opPOP)
	case C16TBadJump:
		a.push(1, 0)
		a.op(opJUMP)
	case C16TSelfdestruct:
		a.pushBytes(f.Benef[:])
		a.op(opSELFDESTRUCT)
	}
	// a trailing STOP keeps data from being executed should a terminator ever fall through
	a.op(opSTOP)
	for _, b := range blobs {
		a.mark(b.label)
		a.b = append(a.b, b.data...)
	}
	return a
}

func (c *c16compiler) initCode(f *C16Frame) []byte {
	if c.final && c.init[f] {
		return f.InitCode
	}
	a := c.frame(f, true)
	code, err := a.resolve(0)
	if err != nil {
		c.fail(err)
	}
	if len(code) > 0xf000 {
		c.fail(fmt.Errorf("init code too large"))
	}
	if c.final {
		f.InitCode = code
		c.init[f] = true
	}
	return code
}

// c16hosted lists, per host, the call-kind nodes of all transactions (the top-level roots included)
// in a deterministic order.
func c16hosted(p *C16Program) [][]*C16Frame {
	out := make([][]*C16Frame, len(p.Hosts))
	seen := map[*C16Frame]bool{}
	var walk func(f *C16Frame, isCreate bool)
	walk = func(f *C16Frame, isCreate bool) {
		if seen[f] {
			return
		}
		seen[f] = true
		if !isCreate {
			out[f.Host] = append(out[f.Host], f)
		}
		for i := range f.Actions {
			if inv := f.Actions[i].Inv; inv != nil && inv.Tgt == C16TgtNode {
				walk(inv.Node, inv.Kind >= C16KCreate)
			}
		}
	}
	for _, tx := range p.Txs {
		if tx.Root != nil {
			walk(tx.Root, tx.Create)
		}
	}
	return out
}

// C16Compile fills p.HostCode, every call-kind node's Dest and every create-kind node's InitCode.
func C16Compile(p *C16Program) error {
	hosted := c16hosted(p)
	c := &c16compiler{p: p, init: map[*C16Frame]bool{}}
	// pass 1: sizes
	for h := range hosted {
		off := 4
		for _, f := range hosted[h] {
			f.Dest = off
			off += len(c.frame(f, false).b)
		}
		if off > 0xf000 {
			return fmt.Errorf("host code too large")
		}
	}
	if c.err != nil {
		return c.err
	}
	// pass 2
	c.final = true
	p.HostCode = make([][]byte, len(p.Hosts))
	for _, tx := range p.Txs {
		if tx.Create && tx.Root != nil {
			c.initCode(tx.Root)
		}
	}
	for h := range hosted {
		code := []byte{opPUSH1, 0, opCALLDATALOAD, opJUMP}
		for _, f := range hosted[h] {
			if len(code) != f.Dest {
				return fmt.Errorf("layout drift: node %d at %d, planned %d", f.ID, len(code), f.Dest)
			}
			sec, err := c.frame(f, false).resolve(f.Dest)
			if err != nil {
				return err
			}
			code = append(code, sec...)
		}
		p.HostCode[h] = code
	}
	return c.err
}
