package model

import (
	"bytes"
	"fmt"
	"sort"
)

// ---- C19: node-level view of a Merkle-Patricia trie, independent of go-youchain/trie ----
//
// MPTBuild is the Yellow-Paper construction of mpt.go extended with a collector: it returns the
// root hash and every node that is stored under its own hash (RLP >= 32 bytes, plus the root node
// whatever its size), i.e. exactly the key/value pairs a complete database of this trie holds.
// MPTNodeRefs parses one stored node and lists the hashes it references and the leaf values it
// carries (also through nodes embedded in it).

func buildCollect(items []kv, i int, out map[string][]byte) []byte {
	keep := func(enc []byte) []byte {
		if len(enc) < 32 {
			return enc
		}
		h := Keccak256(enc)
		out[string(h)] = enc
		return RlpBytes(h)
	}
	if len(items) == 0 {
		return RlpBytes(nil)
	}
	if len(items) == 1 {
		return RlpList(RlpBytes(hexPrefix(items[0].nib[i:], true)), RlpBytes(items[0].val))
	}
	l := len(items[0].nib) - i
	for _, it := range items[1:] {
		m := 0
		for m < l && i+m < len(it.nib) && it.nib[i+m] == items[0].nib[i+m] {
			m++
		}
		l = m
	}
	if l > 0 {
		return RlpList(RlpBytes(hexPrefix(items[0].nib[i:i+l], false)), keep(buildCollect(items, i+l, out)))
	}
	children := make([][]byte, 17)
	var val []byte
	var rest [16][]kv
	for _, it := range items {
		if len(it.nib) == i {
			val = it.val
			continue
		}
		rest[it.nib[i]] = append(rest[it.nib[i]], it)
	}
	for n := 0; n < 16; n++ {
		if len(rest[n]) == 0 {
			children[n] = RlpBytes(nil)
		} else {
			children[n] = keep(buildCollect(rest[n], i+1, out))
		}
	}
	children[16] = RlpBytes(val)
	return RlpList(children...)
}

// MPTBuild returns the root hash and the stored nodes (hash -> RLP) of the trie holding content.
// The empty trie has the well-known empty root and no stored node.
func MPTBuild(content map[string][]byte) (root []byte, nodes map[string][]byte) {
	items := make([]kv, 0, len(content))
	for k, v := range content {
		if len(v) == 0 {
			continue
		}
		items = append(items, kv{toNibbles([]byte(k)), v})
	}
	sort.Slice(items, func(a, b int) bool { return bytes.Compare(items[a].nib, items[b].nib) < 0 })
	nodes = map[string][]byte{}
	enc := buildCollect(items, 0, nodes)
	root = Keccak256(enc)
	if len(items) > 0 {
		nodes[string(root)] = enc
	}
	return root, nodes
}

// MPTNodeRefs parses the RLP of one stored trie node. hashes = the 32-byte references to other
// stored nodes (in child order, duplicates kept), leaves = the values of the leaf / branch-value
// slots found in this node or in nodes embedded in it.
func MPTNodeRefs(blob []byte) (hashes [][]byte, leaves [][]byte, err error) {
	n, used, err := ParseLenient(blob)
	if err != nil {
		return nil, nil, err
	}
	if used != len(blob) {
		return nil, nil, fmt.Errorf("trailing bytes after node")
	}
	err = nodeRefs(n, &hashes, &leaves, 0)
	return
}

func nodeRefs(n *RNode, hashes, leaves *[][]byte, depth int) error {
	if !n.List {
		return fmt.Errorf("node is not a list")
	}
	if depth > 70 {
		return fmt.Errorf("embedded nodes nested too deep")
	}
	child := func(c *RNode) error {
		if c.List {
			return nodeRefs(c, hashes, leaves, depth+1)
		}
		switch len(c.Str) {
		case 0:
			return nil
		case 32:
			*hashes = append(*hashes, c.Str)
			return nil
		}
		return fmt.Errorf("child reference of %d bytes", len(c.Str))
	}
	switch len(n.Kids) {
	case 2:
		k := n.Kids[0]
		if k.List || len(k.Str) == 0 {
			return fmt.Errorf("bad compact key")
		}
		if k.Str[0]&0x20 != 0 { // terminator flag: leaf
			if n.Kids[1].List {
				return fmt.Errorf("leaf value is a list")
			}
			*leaves = append(*leaves, n.Kids[1].Str)
			return nil
		}
		return child(n.Kids[1])
	case 17:
		for i := 0; i < 16; i++ {
			if err := child(n.Kids[i]); err != nil {
				return err
			}
		}
		if v := n.Kids[16]; !v.List && len(v.Str) > 0 {
			*leaves = append(*leaves, v.Str)
		}
		return nil
	}
	return fmt.Errorf("node list of %d items", len(n.Kids))
}

// MPTEmbeddedCount returns how many nodes are embedded (inlined because their RLP is shorter than
// 32 bytes) inside the stored node blob, at any nesting depth.
func MPTEmbeddedCount(blob []byte) int {
	n, _, err := ParseLenient(blob)
	if err != nil || !n.List {
		return 0
	}
	var count func(n *RNode, top bool) int
	count = func(n *RNode, top bool) int {
		c := 0
		if !top {
			c = 1
		}
		for _, k := range n.Kids {
			if k.List {
				c += count(k, false)
			}
		}
		return c
	}
	return count(n, true)
}
