package model

// Published / hand-derived vectors used to validate the C15 reference evaluator at the start of
// every run (independently of the code under test). The SHL/SHR/SAR tables are the test cases
// listed in EIP-145; the others follow directly from the Yellow Paper definitions.

import (
	"fmt"
	"math/big"
	"strings"
)

func c15hex(s string) *big.Int {
	s = strings.TrimPrefix(s, "0x")
	// shorthand: "f*" = 64 f's, "8_" = 8 followed by zeros, "7*" = 7 followed by f's, "4_" , "c_"
	switch s {
	case "f*":
		s = strings.Repeat("f", 64)
	case "8_":
		s = "8" + strings.Repeat("0", 63)
	case "4_":
		s = "4" + strings.Repeat("0", 63)
	case "c_":
		s = "c" + strings.Repeat("0", 63)
	case "7*":
		s = "7" + strings.Repeat("f", 63)
	case "f*e":
		s = strings.Repeat("f", 63) + "e"
	case "8_1":
		s = "8" + strings.Repeat("0", 62) + "1"
	}
	v, ok := new(big.Int).SetString(s, 16)
	if !ok {
		panic("bad hex in C15 vectors: " + s)
	}
	return v
}

type c15vec struct {
	op   byte
	args []string // args[0] = top of stack
	want string
}

var c15vectors = []c15vec{
	// EIP-145 SHL (arg1 = shift on top, arg2 = value)
	{C15SHL, []string{"00", "01"}, "01"},
	{C15SHL, []string{"01", "01"}, "02"},
	{C15SHL, []string{"ff", "01"}, "8_"},
	{C15SHL, []string{"0100", "01"}, "00"},
	{C15SHL, []string{"0101", "01"}, "00"},
	{C15SHL, []string{"00", "f*"}, "f*"},
	{C15SHL, []string{"01", "f*"}, "f*e"},
	{C15SHL, []string{"ff", "f*"}, "8_"},
	{C15SHL, []string{"0100", "f*"}, "00"},
	{C15SHL, []string{"01", "00"}, "00"},
	{C15SHL, []string{"01", "7*"}, "f*e"},
	// EIP-145 SHR
	{C15SHR, []string{"00", "01"}, "01"},
	{C15SHR, []string{"01", "01"}, "00"},
	{C15SHR, []string{"01", "8_"}, "4_"},
	{C15SHR, []string{"ff", "8_"}, "01"},
	{C15SHR, []string{"0100", "8_"}, "00"},
	{C15SHR, []string{"0101", "8_"}, "00"},
	{C15SHR, []string{"00", "f*"}, "f*"},
	{C15SHR, []string{"01", "f*"}, "7*"},
	{C15SHR, []string{"ff", "f*"}, "01"},
	{C15SHR, []string{"0100", "f*"}, "00"},
	{C15SHR, []string{"01", "00"}, "00"},
	// EIP-145 SAR
	{C15SAR, []string{"00", "01"}, "01"},
	{C15SAR, []string{"01", "01"}, "00"},
	{C15SAR, []string{"01", "8_"}, "c_"},
	{C15SAR, []string{"ff", "8_"}, "f*"},
	{C15SAR, []string{"0100", "8_"}, "f*"},
	{C15SAR, []string{"0101", "8_"}, "f*"},
	{C15SAR, []string{"00", "f*"}, "f*"},
	{C15SAR, []string{"01", "f*"}, "f*"},
	{C15SAR, []string{"ff", "f*"}, "f*"},
	{C15SAR, []string{"0100", "f*"}, "f*"},
	{C15SAR, []string{"01", "00"}, "00"},
	{C15SAR, []string{"fe", "4_"}, "01"},
	{C15SAR, []string{"f8", "7*"}, "7f"},
	{C15SAR, []string{"fe", "7*"}, "01"},
	{C15SAR, []string{"ff", "7*"}, "00"},
	{C15SAR, []string{"0100", "7*"}, "00"},
	// Yellow Paper definitions, small hand-checkable instances
	{C15ADD, []string{"f*", "01"}, "00"},
	{C15ADD, []string{"f*", "f*"}, "f*e"},
	{C15SUB, []string{"00", "01"}, "f*"},
	{C15SUB, []string{"05", "03"}, "02"},
	{C15MUL, []string{"8_", "02"}, "00"},
	{C15MUL, []string{"f*", "f*"}, "01"}, // (-1)*(-1)
	{C15DIV, []string{"07", "02"}, "03"},
	{C15DIV, []string{"07", "00"}, "00"},
	{C15DIV, []string{"02", "07"}, "00"},
	{C15SDIV, []string{"8_", "f*"}, "8_"}, // -2^255 / -1 = -2^255
	{C15SDIV, []string{"f*", "00"}, "00"},
	{C15SDIV, []string{"f*e", "f*"}, "02"},                                // -2 / -1
	{C15SDIV, []string{"07", "f*e"}, "f" + strings.Repeat("f", 62) + "d"}, // 7 / -2 = -3 (truncation)
	{C15SDIV, []string{"f" + strings.Repeat("f", 62) + "9", "02"}, "f" + strings.Repeat("f", 62) + "d"}, // -7 / 2 = -3
	{C15MOD, []string{"07", "03"}, "01"},
	{C15MOD, []string{"07", "00"}, "00"},
	{C15SMOD, []string{"f" + strings.Repeat("f", 62) + "9", "03"}, "f*"},                                // -7 smod 3 = -1
	{C15SMOD, []string{"07", "f" + strings.Repeat("f", 62) + "d"}, "01"},                                // 7 smod -3 = 1
	{C15SMOD, []string{"f" + strings.Repeat("f", 62) + "9", "f" + strings.Repeat("f", 62) + "d"}, "f*"}, // -7 smod -3 = -1
	{C15SMOD, []string{"8_", "f*"}, "00"},
	{C15SMOD, []string{"05", "00"}, "00"},
	{C15ADDMOD, []string{"f*", "02", "02"}, "01"}, // (2^256+1) mod 2 = 1: no intermediate wrap
	{C15ADDMOD, []string{"f*", "f*", "f*"}, "00"},
	{C15ADDMOD, []string{"05", "04", "00"}, "00"},
	{C15MULMOD, []string{"f*", "f*", "0c"}, "09"}, // (2^256-1)^2 mod 12: 2^256 mod 12 = 4, (4-1)^2 = 9
	{C15MULMOD, []string{"05", "04", "00"}, "00"},
	{C15EXP, []string{"02", "0100"}, "00"},
	{C15EXP, []string{"02", "ff"}, "8_"},
	{C15EXP, []string{"00", "00"}, "01"},
	{C15EXP, []string{"00", "05"}, "00"},
	{C15EXP, []string{"03", "05"}, "f3"},
	{C15EXP, []string{"f*", "02"}, "01"},
	{C15EXP, []string{"f*", "03"}, "f*"},
	{C15SIGNEXTEND, []string{"00", "ff"}, "f*"},
	{C15SIGNEXTEND, []string{"00", "7f"}, "7f"},
	{C15SIGNEXTEND, []string{"00", "0180"}, "f" + strings.Repeat("f", 61) + "80"},
	{C15SIGNEXTEND, []string{"01", "8000"}, "f" + strings.Repeat("f", 59) + "8000"},
	{C15SIGNEXTEND, []string{"01", "ff7fff"}, "7fff"},
	{C15SIGNEXTEND, []string{"1e", "8_"}, "00"},                 // byte 30: bit 247 of 2^255 is 0 -> upper byte cleared
	{C15SIGNEXTEND, []string{"1f", "8_"}, "8_"},                 // 31: unchanged
	{C15SIGNEXTEND, []string{"20", "ff"}, "ff"},                 // >= 32: unchanged
	{C15SIGNEXTEND, []string{"f*", "ff"}, "ff"},                 // huge index: unchanged
	{C15SIGNEXTEND, []string{"010000000000000000", "80"}, "80"}, // 2^64 (low 64 bits zero): unchanged
	{C15LT, []string{"01", "02"}, "01"},
	{C15LT, []string{"f*", "01"}, "00"},
	{C15GT, []string{"f*", "01"}, "01"},
	{C15SLT, []string{"f*", "01"}, "01"}, // -1 < 1
	{C15SLT, []string{"8_", "7*"}, "01"},
	{C15SLT, []string{"7*", "8_"}, "00"},
	{C15SLT, []string{"f*", "f*e"}, "00"}, // -1 < -2 false
	{C15SGT, []string{"01", "f*"}, "01"},
	{C15SGT, []string{"f*", "f*e"}, "01"}, // -1 > -2
	{C15SGT, []string{"8_", "7*"}, "00"},
	{C15EQ, []string{"8_", "8_"}, "01"},
	{C15EQ, []string{"8_", "8_1"}, "00"},
	{C15ISZERO, []string{"00"}, "01"},
	{C15ISZERO, []string{"8_"}, "00"},
	{C15AND, []string{"f*", "8_1"}, "8_1"},
	{C15OR, []string{"8_", "01"}, "8_1"},
	{C15XOR, []string{"f*", "8_1"}, "7" + strings.Repeat("f", 62) + "e"},
	{C15NOT, []string{"00"}, "f*"},
	{C15NOT, []string{"8_"}, "7*"},
	{C15BYTE, []string{"00", "8_1"}, "80"},
	{C15BYTE, []string{"1f", "8_1"}, "01"},
	{C15BYTE, []string{"1e", "abcd"}, "ab"},
	{C15BYTE, []string{"20", "f*"}, "00"},
	{C15BYTE, []string{"010000000000000000", "f*"}, "00"},
}

// C15SelfCheck validates both formulations of the reference against the vectors, the gas helpers
// against hand-computed prices, and the interpreter on a tiny program.
func C15SelfCheck() error {
	for i, v := range c15vectors {
		args := make([]*big.Int, len(v.args))
		for j, a := range v.args {
			args[j] = c15hex(a)
		}
		want := c15hex(v.want)
		if got := C15Op(v.op, args); got.Cmp(want) != 0 {
			return fmt.Errorf("vector %d %s%v: primary reference gives %x, published/hand value %x", i, C15OpNames[v.op], v.args, got, want)
		}
		if got := C15OpAlt(v.op, args); got.Cmp(want) != 0 {
			return fmt.Errorf("vector %d %s%v: second reference gives %x, published/hand value %x", i, C15OpNames[v.op], v.args, got, want)
		}
	}
	// gas helpers
	if C15ExpGas(big.NewInt(0)) != 10 || C15ExpGas(big.NewInt(255)) != 60 || C15ExpGas(big.NewInt(256)) != 110 ||
		C15ExpGas(c15hex("f*")) != 10+50*32 {
		return fmt.Errorf("EXP gas helper wrong")
	}
	if C15MemCost(1) != 3 || C15MemCost(2) != 6 || C15MemCost(22) != 66 || C15MemCost(23) != 70 || C15MemCost(32) != 98 || C15MemCost(1024) != 3072+2048 {
		return fmt.Errorf("memory gas helper wrong")
	}
	// PUSH1 10 PUSH1 0 MSTORE PUSH1 32 PUSH1 0 RETURN: returns word 10 for 3+3+(3+3)+3+3+0 = 18 gas
	code := []byte{0x60, 10, 0x60, 0, 0x52, 0x60, 32, 0x60, 0, 0xf3}
	o := C15Exec(code, 100, nil)
	if o.Err != "" || o.GasUsed != 18 || len(o.Ret) != 32 || o.Ret[31] != 10 {
		return fmt.Errorf("interpreter self-check: %+v", o)
	}
	if o := C15Exec(code, 17, nil); o.Err != "out-of-gas" || o.GasUsed != 17 {
		return fmt.Errorf("interpreter self-check (17 gas): %+v", o)
	}
	// PUSH1 1 PUSH1 2 PUSH1 3 DUP3 SWAP2 SUB (3-... ) : stack bottom-first [1,2,3] -> DUP3 [1,2,3,1] -> SWAP2 [1,1,3,2] -> SUB [1,1,2-3]
	o = C15Exec([]byte{0x60, 1, 0x60, 2, 0x60, 3, 0x82, 0x91, 0x03}, 100, nil)
	if o.Err != "" || len(o.Stack) != 3 || o.Stack[2].Cmp(c15hex("f*")) != 0 || o.Stack[1].Cmp(big.NewInt(1)) != 0 || o.GasUsed != 18 {
		return fmt.Errorf("interpreter self-check (dup/swap): %+v", o)
	}
	// underflow and unknown opcode
	if o := C15Exec([]byte{0x01}, 100, nil); o.Err != "stack-underflow" {
		return fmt.Errorf("interpreter self-check (underflow): %+v", o)
	}
	if o := C15Exec([]byte{0xfe}, 100, nil); o.Err != "invalid-opcode" {
		return fmt.Errorf("interpreter self-check (invalid): %+v", o)
	}
	// storage: SSTORE(k=1,v=7) SLOAD(1): 3+3+20000 + 3+800
	o = C15Exec([]byte{0x60, 7, 0x60, 1, 0x55, 0x60, 1, 0x54}, 100000, nil)
	if o.Err != "" || len(o.Stack) != 1 || o.Stack[0].Cmp(big.NewInt(7)) != 0 || o.GasUsed != 20809 {
		return fmt.Errorf("interpreter self-check (storage): %+v", o)
	}
	// MSTORE8 + unaligned MLOAD: PUSH1 0xab PUSH1 33 MSTORE8 PUSH1 2 MLOAD -> word with 0xab at byte 31; memory 3 words
	o = C15Exec([]byte{0x60, 0xab, 0x60, 33, 0x53, 0x60, 2, 0x51}, 1000, nil)
	if o.Err != "" || len(o.Stack) != 1 || o.Stack[0].Cmp(big.NewInt(0xab)) != 0 || len(o.Mem) != 64 || o.GasUsed != 3+3+3+6+3+3 {
		return fmt.Errorf("interpreter self-check (mstore8/mload): err=%q stack=%v mem=%d gas=%d", o.Err, o.Stack, len(o.Mem), o.GasUsed)
	}
	return c15SelfCheckMem()
}

// c15SelfCheckMem: Keccak-256 on published digests, and hand-computed instances of the active
// memory size / memory expansion gas rules for every memory-touching opcode of the subset.
func c15SelfCheckMem() error {
	seq := func(n int) []byte {
		b := make([]byte, n)
		for i := range b {
			b[i] = byte(i)
		}
		return b
	}
	for _, v := range []struct {
		in   []byte
		want string
	}{
		// published: empty string, "abc", and the ubiquitous hash of one zero word (Solidity slot 0)
		{nil, "c5d2460186f7233c927e7db2dcc703c0e500b653ca82273b7bfad8045d85a470"},
		{[]byte("abc"), "4e03657aea45a94fc7d47ba826c8d667c0d1e6e33a64a036ec44f58fa12d6c45"},
		{make([]byte, 32), "290decd9548b62a8d60345a988386fc84ba6bc95484008f6362f93160ef3e563"},
		// around the 136-byte rate and multi-block (bytes 0,1,2,..; digests obtained once from
		// golang.org/x/crypto/sha3 NewLegacyKeccak256, with which this implementation agreed on all
		// lengths 0..699)
		{seq(135), "cbdfd9dee5faad3818d6b06f95a219fd290b0e1706f6a82e5a595b9ce9faca62"},
		{seq(136), "7ce759f1ab7f9ce437719970c26b0a66ff11fe3e38e17df89cf5d29c7d7f807e"},
		{seq(137), "ac73d4fae68b8453f764007c1a20ce95994187861f0c3227a3a8e99a73a3b1db"},
		{seq(300), "a679e749a6af300c36e7ff2255d220864eab27b382f9cfdc5aa4d13563ba36ff"},
	} {
		if got := C15Keccak256(v.in); fmt.Sprintf("%x", got) != v.want {
			return fmt.Errorf("Keccak-256 of %d bytes: %x, published %s", len(v.in), got, v.want)
		}
	}
	if w := C15MemWords(3, big.NewInt(1000000), big.NewInt(0)); w.Int64() != 3 {
		return fmt.Errorf("M(3, 10^6, 0) = %v, want 3", w)
	}
	if w := C15MemWords(3, big.NewInt(95), big.NewInt(1)); w.Int64() != 3 {
		return fmt.Errorf("M(3, 95, 1) = %v, want 3", w)
	}
	if w := C15MemWords(3, big.NewInt(95), big.NewInt(2)); w.Int64() != 4 {
		return fmt.Errorf("M(3, 95, 2) = %v, want 4", w)
	}
	ff := make([]byte, 32)
	for i := range ff {
		ff[i] = 0xff
	}
	push32ff := append([]byte{0x7f}, ff...)
	cat := func(parts ...[]byte) (r []byte) {
		for _, p := range parts {
			r = append(r, p...)
		}
		return
	}
	emptyHash := c15hex("c5d2460186f7233c927e7db2dcc703c0e500b653ca82273b7bfad8045d85a470")
	type mv struct {
		name  string
		code  []byte
		input []byte
		gas   uint64 // expected gas used
		stack []*big.Int
		mem   int // expected active bytes
		err   string
		rev   bool
		ret   int // expected length of the output
	}
	n := func(v ...int64) (r []*big.Int) {
		for _, x := range v {
			r = append(r, big.NewInt(x))
		}
		return
	}
	vecs := []mv{
		// MSTORE8 touches ONE byte: offset 31 stays within the first word, offset 32 needs the second
		{name: "mstore8@31", code: []byte{0x60, 1, 0x60, 31, 0x53, 0x59}, gas: 3 + 3 + (3 + 3) + 2, stack: n(32), mem: 32},
		{name: "mstore8@32", code: []byte{0x60, 1, 0x60, 32, 0x53, 0x59}, gas: 3 + 3 + (3 + 6) + 2, stack: n(64), mem: 64},
		{name: "mstore8@1", code: []byte{0x60, 1, 0x60, 1, 0x53, 0x59}, gas: 3 + 3 + (3 + 3) + 2, stack: n(32), mem: 32},
		// MLOAD at 1 touches bytes 1..32: two words
		{name: "mload@1", code: []byte{0x60, 1, 0x51, 0x59}, gas: 3 + (3 + 6) + 2, stack: n(0, 64), mem: 64},
		// MSTORE at 0x7fe0: 1024 words, 3*1024 + 1024^2/512
		{name: "mstore@0x7fe0", code: []byte{0x60, 0, 0x61, 0x7f, 0xe0, 0x52, 0x59}, gas: 3 + 3 + (3 + 3072 + 2048) + 2, stack: n(32768), mem: 32768},
		// expansion is charged on the delta: 1 word (3), then up to 23 words (70 - 3)
		{name: "delta", code: []byte{0x60, 0, 0x60, 0, 0x52, 0x60, 0, 0x61, 0x02, 0xc0, 0x52}, gas: 3 + 3 + (3 + 3) + 3 + 3 + (3 + 70 - 3), stack: nil, mem: 23 * 32},
		// zero length never expands, whatever the offset: SHA3(2^256-1, 0) = keccak(""), 30 gas
		{name: "sha3 zero length at 2^256-1", code: cat([]byte{0x60, 0}, push32ff, []byte{0x20, 0x59}), gas: 3 + 3 + 30 + 2, stack: []*big.Int{emptyHash, big.NewInt(0)}, mem: 0},
		// SHA3 of bytes 31..63 (33 bytes): 2 words hashed, 2 words active
		{name: "sha3 33 bytes at 31", code: []byte{0x60, 33, 0x60, 31, 0x20, 0x50, 0x59}, gas: 3 + 3 + (30 + 12 + 6) + 2 + 2, stack: n(64), mem: 64},
		// CALLDATACOPY of 33 bytes to 31: 2 words copied, 2 words active
		{name: "calldatacopy", code: []byte{0x60, 33, 0x60, 0, 0x60, 31, 0x37, 0x59}, input: []byte{1, 2, 3}, gas: 9 + (3 + 6 + 6) + 2, stack: n(64), mem: 64},
		{name: "calldatacopy zero length", code: cat([]byte{0x60, 0}, push32ff, push32ff, []byte{0x37, 0x59}), input: []byte{1, 2, 3}, gas: 9 + 3 + 2, stack: n(0), mem: 0},
		{name: "codecopy 1 byte at 64", code: []byte{0x60, 1, 0x60, 0, 0x60, 64, 0x39, 0x59}, gas: 9 + (3 + 3 + 9) + 2, stack: n(96), mem: 96},
		{name: "returndatacopy empty", code: cat([]byte{0x60, 0, 0x60, 0}, push32ff, []byte{0x3e, 0x59}), gas: 9 + 3 + 2, stack: n(0), mem: 0},
		{name: "returndatacopy out of bounds", code: []byte{0x60, 0, 0x60, 1, 0x60, 0, 0x3e}, gas: 1000, err: "returndata-out-of-bounds"},
		// LOG1 with 5 data bytes at 0: 375 + 375 + 8*5 + 3
		{name: "log1", code: []byte{0x60, 9, 0x60, 5, 0x60, 0, 0xa1, 0x59}, gas: 9 + (750 + 40 + 3) + 2, stack: n(32), mem: 32},
		{name: "log0 zero length huge offset", code: cat([]byte{0x60, 0}, push32ff, []byte{0xa0, 0x59}), gas: 6 + 375 + 2, stack: n(0), mem: 0},
		// RETURN / REVERT: zero length at a huge offset costs nothing; 1 byte at 32 costs 2 words
		{name: "return zero length", code: cat([]byte{0x60, 0}, push32ff, []byte{0xf3}), gas: 6, mem: 0},
		{name: "return 1 byte at 32", code: []byte{0x60, 1, 0x60, 32, 0xf3}, gas: 6 + 6, mem: 64, ret: 1},
		{name: "revert 32 bytes at 1", code: []byte{0x60, 32, 0x60, 1, 0xfd}, gas: 6 + 6, mem: 64, ret: 32, rev: true},
		// unaffordable
		{name: "mstore8 at 2^256-1", code: cat([]byte{0x60, 1}, push32ff, []byte{0x53}), gas: 1000, err: "out-of-gas"},
		// GAS: what is left after paying for GAS itself
		{name: "gas", code: []byte{0x5a}, gas: 2, stack: n(998), mem: 0},
	}
	for _, v := range vecs {
		o := C15ExecIn(v.code, v.input, 1000, nil)
		if v.name == "mstore@0x7fe0" {
			o = C15ExecIn(v.code, v.input, 10000, nil)
		}
		bad := o.Err != v.err || o.GasUsed != v.gas || o.Reverted != v.rev || len(o.Ret) != v.ret
		if v.err == "" {
			bad = bad || len(o.Mem) != v.mem || len(o.Stack) != len(v.stack)
			if !bad {
				for i := range v.stack {
					bad = bad || o.Stack[i].Cmp(v.stack[i]) != 0
				}
			}
		}
		if bad {
			return fmt.Errorf("memory self-check %q: err=%q gas=%d reverted=%v ret=%d mem=%d stack=%v", v.name, o.Err, o.GasUsed, o.Reverted, len(o.Ret), len(o.Mem), o.Stack)
		}
	}
	// contents: CALLDATACOPY pads with zeros, CODECOPY copies the code, LOG data and topics
	o := C15ExecIn([]byte{0x60, 4, 0x60, 1, 0x60, 30, 0x37, 0x60, 7, 0x60, 6, 0x60, 2, 0x60, 30, 0xa2}, []byte{0xaa, 0xbb, 0xcc}, 10000, nil)
	if o.Err != "" || len(o.Mem) != 64 || o.Mem[30] != 0xbb || o.Mem[31] != 0xcc || o.Mem[32] != 0 || o.Mem[33] != 0 ||
		len(o.Logs) != 1 || len(o.Logs[0].Topics) != 2 || o.Logs[0].Topics[0][31] != 6 || o.Logs[0].Topics[1][31] != 7 ||
		len(o.Logs[0].Data) != 2 || o.Logs[0].Data[0] != 0xbb || o.Logs[0].Data[1] != 0xcc {
		return fmt.Errorf("memory self-check (calldatacopy/log contents): %+v", o)
	}
	return nil
}
