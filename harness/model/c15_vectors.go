package model

// Published / hand-derived vectors used to validate the C15 reference evaluator at the start of
// every run (independently of the code under test). The SHL/SHR/SAR tables are the test cases
// listed in EIP-145; the others follow directly from the Yellow Paper definitions.

import (
	"fmt"
	"math/big"
	"strings"
)

func c15hex(s string) *big.Int {
	s = strings.TrimPrefix(s, "0x")
	// shorthand: "f*" = 64 f's, "8_" = 8 followed by zeros, "7*" = 7 followed by f's, "4_" , "c_"
	switch s {
	case "f*":
		s = strings.Repeat("f", 64)
	case "8_":
		s = "8" + strings.Repeat("0", 63)
	case "4_":
		s = "4" + strings.Repeat("0", 63)
	case "c_":
		s = "c" + strings.Repeat("0", 63)
	case "7*":
		s = "7" + strings.Repeat("f", 63)
	case "f*e":
		s = strings.Repeat("f", 63) + "e"
	case "8_1":
		s = "8" + strings.Repeat("0", 62) + "1"
	}
	v, ok := new(big.Int).SetString(s, 16)
	if !ok {
		panic("bad hex in C15 vectors: " + s)
	}
	return v
}

type c15vec struct {
	op   byte
	args []string // args[0] = top of stack
	want string
}

var c15vectors = []c15vec{
	// EIP-145 SHL (arg1 = shift on top, arg2 = value)
	{C15SHL, []string{"00", "01"}, "01"},
	{C15SHL, []string{"01", "01"}, "02"},
	{C15SHL, []string{"ff", "01"}, "8_"},
	{C15SHL, []string{"0100", "01"}, "00"},
	{C15SHL, []string{"0101", "01"}, "00"},
	{C15SHL, []string{"00", "f*"}, "f*"},
	{C15SHL, []string{"01", "f*"}, "f*e"},
	{C15SHL, []string{"ff", "f*"}, "8_"},
	{C15SHL, []string{"0100", "f*"}, "00"},
	{C15SHL, []string{"01", "00"}, "00"},
	{C15SHL, []string{"01", "7*"}, "f*e"},
	// EIP-145 SHR
	{C15SHR, []string{"00", "01"}, "01"},
	{C15SHR, []string{"01", "01"}, "00"},
	{C15SHR, []string{"01", "8_"}, "4_"},
	{C15SHR, []string{"ff", "8_"}, "01"},
	{C15SHR, []string{"0100", "8_"}, "00"},
	{C15SHR, []string{"0101", "8_"}, "00"},
	{C15SHR, []string{"00", "f*"}, "f*"},
	{C15SHR, []string{"01", "f*"}, "7*"},
	{C15SHR, []string{"ff", "f*"}, "01"},
	{C15SHR, []string{"0100", "f*"}, "00"},
	{C15SHR, []string{"01", "00"}, "00"},
	// EIP-145 SAR
	{C15SAR, []string{"00", "01"}, "01"},
	{C15SAR, []string{"01", "01"}, "00"},
	{C15SAR, []string{"01", "8_"}, "c_"},
	{C15SAR, []string{"ff", "8_"}, "f*"},
	{C15SAR, []string{"0100", "8_"}, "f*"},
	{C15SAR, []string{"0101", "8_"}, "f*"},
	{C15SAR, []string{"00", "f*"}, "f*"},
	{C15SAR, []string{"01", "f*"}, "f*"},
	{C15SAR, []string{"ff", "f*"}, "f*"},
	{C15SAR, []string{"0100", "f*"}, "f*"},
	{C15SAR, []string{"01", "00"}, "00"},
	{C15SAR, []string{"fe", "4_"}, "01"},
	{C15SAR, []string{"f8", "7*"}, "7f"},
	{C15SAR, []string{"fe", "7*"}, "01"},
	{C15SAR, []string{"ff", "7*"}, "00"},
	{C15SAR, []string{"0100", "7*"}, "00"},
	// Yellow Paper definitions, small hand-checkable instances
	{C15ADD, []string{"f*", "01"}, "00"},
	{C15ADD, []string{"f*", "f*"}, "f*e"},
	{C15SUB, []string{"00", "01"}, "f*"},
	{C15SUB, []string{"05", "03"}, "02"},
	{C15MUL, []string{"8_", "02"}, "00"},
	{C15MUL, []string{"f*", "f*"}, "01"}, // (-1)*(-1)
	{C15DIV, []string{"07", "02"}, "03"},
	{C15DIV, []string{"07", "00"}, "00"},
	{C15DIV, []string{"02", "07"}, "00"},
	{C15SDIV, []string{"8_", "f*"}, "8_"}, // -2^255 / -1 = -2^255
	{C15SDIV, []string{"f*", "00"}, "00"},
	{C15SDIV, []string{"f*e", "f*"}, "02"},                                // -2 / -1
	{C15SDIV, []string{"07", "f*e"}, "f" + strings.Repeat("f", 62) + "d"}, // 7 / -2 = -3 (truncation)
	{C15SDIV, []string{"f" + strings.Repeat("f", 62) + "9", "02"}, "f" + strings.Repeat("f", 62) + "d"}, // -7 / 2 = -3
	{C15MOD, []string{"07", "03"}, "01"},
	{C15MOD, []string{"07", "00"}, "00"},
	{C15SMOD, []string{"f" + strings.Repeat("f", 62) + "9", "03"}, "f*"},                                // -7 smod 3 = -1
	{C15SMOD, []string{"07", "f" + strings.Repeat("f", 62) + "d"}, "01"},                                // 7 smod -3 = 1
	{C15SMOD, []string{"f" + strings.Repeat("f", 62) + "9", "f" + strings.Repeat("f", 62) + "d"}, "f*"}, // -7 smod -3 = -1
	{C15SMOD, []string{"8_", "f*"}, "00"},
	{C15SMOD, []string{"05", "00"}, "00"},
	{C15ADDMOD, []string{"f*", "02", "02"}, "01"}, // (2^256+1) mod 2 = 1: no intermediate wrap
	{C15ADDMOD, []string{"f*", "f*", "f*"}, "00"},
	{C15ADDMOD, []string{"05", "04", "00"}, "00"},
	{C15MULMOD, []string{"f*", "f*", "0c"}, "09"}, // (2^256-1)^2 mod 12: 2^256 mod 12 = 4, (4-1)^2 = 9
	{C15MULMOD, []string{"05", "04", "00"}, "00"},
	{C15EXP, []string{"02", "0100"}, "00"},
	{C15EXP, []string{"02", "ff"}, "8_"},
	{C15EXP, []string{"00", "00"}, "01"},
	{C15EXP, []string{"00", "05"}, "00"},
	{C15EXP, []string{"03", "05"}, "f3"},
	{C15EXP, []string{"f*", "02"}, "01"},
	{C15EXP, []string{"f*", "03"}, "f*"},
	{C15SIGNEXTEND, []string{"00", "ff"}, "f*"},
	{C15SIGNEXTEND, []string{"00", "7f"}, "7f"},
	{C15SIGNEXTEND, []string{"00", "0180"}, "f" + strings.Repeat("f", 61) + "80"},
	{C15SIGNEXTEND, []string{"01", "8000"}, "f" + strings.Repeat("f", 59) + "8000"},
	{C15SIGNEXTEND, []string{"01", "ff7fff"}, "7fff"},
	{C15SIGNEXTEND, []string{"1e", "8_"}, "00"},                 // byte 30: bit 247 of 2^255 is 0 -> upper byte cleared
	{C15SIGNEXTEND, []string{"1f", "8_"}, "8_"},                 // 31: unchanged
	{C15SIGNEXTEND, []string{"20", "ff"}, "ff"},                 // >= 32: unchanged
	{C15SIGNEXTEND, []string{"f*", "ff"}, "ff"},                 // huge index: unchanged
	{C15SIGNEXTEND, []string{"010000000000000000", "80"}, "80"}, // 2^64 (low 64 bits zero): unchanged
	{C15LT, []string{"01", "02"}, "01"},
	{C15LT, []string{"f*", "01"}, "00"},
	{C15GT, []string{"f*", "01"}, "01"},
	{C15SLT, []string{"f*", "01"}, "01"}, // -1 < 1
	{C15SLT, []string{"8_", "7*"}, "01"},
	{C15SLT, []string{"7*", "8_"}, "00"},
	{C15SLT, []string{"f*", "f*e"}, "00"}, // -1 < -2 false
	{C15SGT, []string{"01", "f*"}, "01"},
	{C15SGT, []string{"f*", "f*e"}, "01"}, // -1 > -2
	{C15SGT, []string{"8_", "7*"}, "00"},
	{C15EQ, []string{"8_", "8_"}, "01"},
	{C15EQ, []string{"8_", "8_1"}, "00"},
	{C15ISZERO, []string{"00"}, "01"},
	{C15ISZERO, []string{"8_"}, "00"},
	{C15AND, []string{"f*", "8_1"}, "8_1"},
	{C15OR, []string{"8_", "01"}, "8_1"},
	{C15XOR, []string{"f*", "8_1"}, "7" + strings.Repeat("f", 62) + "e"},
	{C15NOT, []string{"00"}, "f*"},
	{C15NOT, []string{"8_"}, "7*"},
	{C15BYTE, []string{"00", "8_1"}, "80"},
	{C15BYTE, []string{"1f", "8_1"}, "01"},
	{C15BYTE, []string{"1e", "abcd"}, "ab"},
	{C15BYTE, []string{"20", "f*"}, "00"},
	{C15BYTE, []string{"010000000000000000", "f*"}, "00"},
}

// C15SelfCheck validates both formulations of the reference against the vectors, the gas helpers
// against hand-computed prices, and the interpreter on a tiny program.
func C15SelfCheck() error {
	for i, v := range c15vectors {
		args := make([]*big.Int, len(v.args))
		for j, a := range v.args {
			args[j] = c15hex(a)
		}
		want := c15hex(v.want)
		if got := C15Op(v.op, args); got.Cmp(want) != 0 {
			return fmt.Errorf("vector %d %s%v: primary reference gives %x, published/hand value %x", i, C15OpNames[v.op], v.args, got, want)
		}
		if got := C15OpAlt(v.op, args); got.Cmp(want) != 0 {
			return fmt.Errorf("vector %d %s%v: second reference gives %x, published/hand value %x", i, C15OpNames[v.op], v.args, got, want)
		}
	}
	// gas helpers
	if C15ExpGas(big.NewInt(0)) != 10 || C15ExpGas(big.NewInt(255)) != 60 || C15ExpGas(big.NewInt(256)) != 110 ||
		C15ExpGas(c15hex("f*")) != 10+50*32 {
		return fmt.Errorf("EXP gas helper wrong")
	}
	if C15MemCost(1) != 3 || C15MemCost(2) != 6 || C15MemCost(22) != 66 || C15MemCost(23) != 70 || C15MemCost(32) != 98 || C15MemCost(1024) != 3072+2048 {
		return fmt.Errorf("memory gas helper wrong")
	}
	// PUSH1 10 PUSH1 0 MSTORE PUSH1 32 PUSH1 0 RETURN: returns word 10 for 3+3+(3+3)+3+3+0 = 18 gas
	code := []byte{0x60, 10, 0x60, 0, 0x52, 0x60, 32, 0x60, 0, 0xf3}
	o := C15Exec(code, 100, nil)
	if o.Err != "" || o.GasUsed != 18 || len(o.Ret) != 32 || o.Ret[31] != 10 {
		return fmt.Errorf("interpreter self-check: %+v", o)
	}
	if o := C15Exec(code, 17, nil); o.Err != "out-of-gas" || o.GasUsed != 17 {
		return fmt.Errorf("interpreter self-check (17 gas): %+v", o)
	}
	// PUSH1 1 PUSH1 2 PUSH1 3 DUP3 SWAP2 SUB (3-... ) : stack bottom-first [1,2,3] -> DUP3 [1,2,3,1] -> SWAP2 [1,1,3,2] -> SUB [1,1,2-3]
	o = C15Exec([]byte{0x60, 1, 0x60, 2, 0x60, 3, 0x82, 0x91, 0x03}, 100, nil)
	if o.Err != "" || len(o.Stack) != 3 || o.Stack[2].Cmp(c15hex("f*")) != 0 || o.Stack[1].Cmp(big.NewInt(1)) != 0 || o.GasUsed != 18 {
		return fmt.Errorf("interpreter self-check (dup/swap): %+v", o)
	}
	// underflow and unknown opcode
	if o := C15Exec([]byte{0x01}, 100, nil); o.Err != "stack-underflow" {
		return fmt.Errorf("interpreter self-check (underflow): %+v", o)
	}
	if o := C15Exec([]byte{0xfe}, 100, nil); o.Err != "invalid-opcode" {
		return fmt.Errorf("interpreter self-check (invalid): %+v", o)
	}
	// storage: SSTORE(k=1,v=7) SLOAD(1): 3+3+20000 + 3+800
	o = C15Exec([]byte{0x60, 7, 0x60, 1, 0x55, 0x60, 1, 0x54}, 100000, nil)
	if o.Err != "" || len(o.Stack) != 1 || o.Stack[0].Cmp(big.NewInt(7)) != 0 || o.GasUsed != 20809 {
		return fmt.Errorf("interpreter self-check (storage): %+v", o)
	}
	// MSTORE8 + unaligned MLOAD: PUSH1 0xab PUSH1 33 MSTORE8 PUSH1 2 MLOAD -> word with 0xab at byte 31; memory 3 words
	o = C15Exec([]byte{0x60, 0xab, 0x60, 33, 0x53, 0x60, 2, 0x51}, 1000, nil)
	if o.Err != "" || len(o.Stack) != 1 || o.Stack[0].Cmp(big.NewInt(0xab)) != 0 || len(o.Mem) != 64 || o.GasUsed != 3+3+3+6+3+3 {
		return fmt.Errorf("interpreter self-check (mstore8/mload): err=%q stack=%v mem=%d gas=%d", o.Err, o.Stack, len(o.Mem), o.GasUsed)
	}
	return nil
}
