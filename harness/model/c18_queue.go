package model

// C18: sequential task-state model of the block-body download scheduler, written from the
// property statement (not from queue.go). Every header of the scheduled range is in exactly one
// state: unscheduled | queued | pending(peer) | done | released. The model is PERMISSIVE: its
// Step function does not predict what the scheduler returns, it only decides whether the observed
// (input, output) pair is allowed by the rules, and derives the next state from the output:
//
//   Schedule  accepts the longest prefix that is contiguous in number from `from` and linked by
//             parent hash to the last scheduled header (output = number inserted, must be equal).
//   Reserve   may hand the peer ANY set of distinct queued headers, and nothing if the peer already
//             owns a request. (No policy — order, batch size, throttling, lacking sets — is
//             demanded.) An error is never allowed on a valid chain.
//   Deliver   with no request owned: nothing accepted. Otherwise at most the
//             longest prefix of the response whose bodies match the requested headers is accepted
//             (never a body that does not match); accepted ones become done, all others return to
//             queued; the request is gone. "invalid chain" is never allowed.
//   Cancel    (of the request the peer owns) / Revoke(peer) / Expire: everything the peer(s) own
//             returns to queued; Expire(all) must report exactly the owners and their counts.
//   Results   returns a contiguous run starting at the first unreleased header, each done; an
//             empty block that is still queued may also be released (the scheduler completes
//             empty blocks by itself; when it does so is not observable, so the model is lazy).
//
// The same Step is used (a) sequentially next to scripted schedules and (b) as the porcupine
// model for concurrent histories.

import (
	"fmt"
	"sort"
)

const (
	C18Schedule = iota
	C18Reserve
	C18Deliver
	C18Cancel
	C18Expire
	C18Revoke
	C18Results
)

var c18OpNames = []string{"schedule", "reserve", "deliver", "cancel", "expire", "revoke", "results"}

func C18OpName(k int) string { return c18OpNames[k] }

// C18Hdr is a header as the model sees it: identities instead of hashes.
type C18Hdr struct {
	Num    uint64 `json:"n"`
	ID     int    `json:"id"` // chain index for genuine headers, <0 for forged ones
	Parent int    `json:"p"`  // ID of the header whose hash is ParentHash (-1: the origin block, -2: unknown)
}

// C18In is the input of one operation.
type C18In struct {
	Kind    int      `json:"k"`
	Peer    int      `json:"peer,omitempty"`
	From    uint64   `json:"from,omitempty"`   // Schedule
	Headers []C18Hdr `json:"hdrs,omitempty"`   // Schedule
	Count   int      `json:"count,omitempty"`  // Reserve
	Bodies  []int    `json:"bodies,omitempty"` // Deliver: body identities (tx-list id; <0 = matches no header)
	Aged    []int    `json:"aged,omitempty"`   // Expire: nil = every request has expired; else only these peers' requests have
	AgedSel bool     `json:"sel,omitempty"`    // Expire: Aged is meaningful (may be empty)
}

// C18Out is the observed output of one operation.
type C18Out struct {
	N        int         `json:"n,omitempty"`        // Schedule: inserted; Deliver: accepted
	IDs      []int       `json:"ids,omitempty"`      // Reserve: headers handed out; Results: headers released
	Progress bool        `json:"progress,omitempty"` // Reserve
	Err      string      `json:"err,omitempty"`      // Reserve / Deliver error kind
	Expired  map[int]int `json:"expired,omitempty"`  // Expire: peer -> count
}

// C18Chain is the static description of the header range (not part of the state).
type C18Chain struct {
	Origin uint64 // number of the block before the first header
	Empty  []bool // per chain index: block has no transactions
	Body   []int  // per chain index: identity of its transaction list (equal lists share an id)
	Peers  int
}

const (
	c18Unsched  = 0
	c18Queued   = 1
	c18Done     = 2
	c18Released = 3
	c18PendBase = 10
)

// C18State is immutable once returned by Step (Step copies).
type C18State struct {
	Status   []uint8
	Pend     [][]int // per peer: ordered ids of the request it owns (nil = none)
	Head     int     // id of the last scheduled header, -1 = none yet
	Released int     // ids < Released have been released
	key      string
}

func C18Init(ch *C18Chain) *C18State {
	s := &C18State{Status: make([]uint8, len(ch.Empty)), Pend: make([][]int, ch.Peers), Head: -1}
	return s
}

func (s *C18State) encode() string {
	b := make([]byte, 0, len(s.Status)+8*len(s.Pend)+8)
	b = append(b, s.Status...)
	b = append(b, byte(s.Head+1), byte((s.Head+1)>>8), byte(s.Released), byte(s.Released>>8))
	for _, p := range s.Pend {
		b = append(b, 0xff, byte(len(p)))
		for _, id := range p {
			b = append(b, byte(id), byte(id>>8))
		}
	}
	return string(b)
}

// Key is a canonical encoding (computed on first use; call it before sharing the state between
// goroutines).
func (s *C18State) Key() string {
	if s.key == "" {
		s.key = s.encode()
	}
	return s.key
}

func (s *C18State) clone() *C18State {
	n := &C18State{Status: append([]uint8(nil), s.Status...), Pend: make([][]int, len(s.Pend)), Head: s.Head, Released: s.Released}
	for i, p := range s.Pend {
		if p != nil {
			n.Pend[i] = append([]int(nil), p...)
		}
	}
	return n
}

func (s *C18State) StatusName(id int) string {
	switch st := s.Status[id]; {
	case st == c18Unsched:
		return "unscheduled"
	case st == c18Queued:
		return "queued"
	case st == c18Done:
		return "done"
	case st == c18Released:
		return "released"
	default:
		return fmt.Sprintf("pending(%d)", int(st)-c18PendBase)
	}
}

// IsQueued etc. are used by the pool-agreement check of the scripted workload.
func (s *C18State) IsQueued(id int) bool   { return s.Status[id] == c18Queued }
func (s *C18State) IsDone(id int) bool     { return s.Status[id] == c18Done }
func (s *C18State) IsReleased(id int) bool { return s.Status[id] == c18Released }
func (s *C18State) IsUnsched(id int) bool  { return s.Status[id] == c18Unsched }
func (s *C18State) Owner(id int) int {
	if s.Status[id] >= c18PendBase {
		return int(s.Status[id]) - c18PendBase
	}
	return -1
}

// C18Step decides whether (in,out) is allowed in state s and returns the successor. why explains
// a refusal. It never mutates s.
func C18Step(ch *C18Chain, s *C18State, in *C18In, out *C18Out) (ok bool, why string, next *C18State) {
	n := s.clone()
	fail := func(class, f string, a ...interface{}) (bool, string, *C18State) {
		return false, class + ": " + fmt.Sprintf(f, a...), s
	}
	release := func(peer int) {
		for _, id := range n.Pend[peer] {
			if n.Status[id] == uint8(c18PendBase+peer) {
				n.Status[id] = c18Queued
			}
		}
		n.Pend[peer] = nil
	}
	switch in.Kind {
	case C18Schedule:
		from := in.From
		acc := 0
		for _, h := range in.Headers {
			if h.Num != from {
				break
			}
			if n.Head != -1 && h.Parent != n.Head {
				break
			}
			if h.ID < 0 || h.ID >= len(n.Status) {
				// a forged header that nevertheless links: the harness never builds one
				return fail("harness-bug", "forged header %d would be accepted", h.ID)
			}
			if st := n.Status[h.ID]; st == c18Queued || st >= c18PendBase {
				continue // already wanted: skipped, not counted, numbering does not advance
			}
			n.Status[h.ID] = c18Queued
			n.Head = h.ID
			from++
			acc++
		}
		if out.N != acc {
			return fail("schedule-count-mismatch", "inserted %d headers, the contiguity/linkage rule admits %d", out.N, acc)
		}
	case C18Reserve:
		if out.Err != "" {
			return fail("reserve-error", "error %q on a valid chain", out.Err)
		}
		if len(out.IDs) > 0 && n.Pend[in.Peer] != nil {
			return fail("reserve-double-request", "peer %d already owns a request (%v) and was given another (%v)", in.Peer, n.Pend[in.Peer], out.IDs)
		}
		for _, id := range out.IDs {
			if id < 0 || id >= len(n.Status) {
				return fail("reserve-unknown-header", "handed out an unknown header %d", id)
			}
			if n.Status[id] != c18Queued {
				return fail("reserve-not-queued", "handed out header %d which is %s", id, n.StatusName(id))
			}
			n.Status[id] = uint8(c18PendBase + in.Peer)
		}
		if len(out.IDs) > 0 {
			n.Pend[in.Peer] = append([]int(nil), out.IDs...)
		}
	case C18Deliver:
		req := n.Pend[in.Peer]
		if req == nil {
			if out.N != 0 {
				return fail("deliver-unsolicited-accepted", "peer %d owns no request but delivery gave (accepted=%d, err=%q)", in.Peer, out.N, out.Err)
			}
			break
		}
		if out.Err == "invalid-chain" || out.Err == "no-fetches-pending" {
			return fail("deliver-spurious-error", "peer %d owns request %v but delivery gave err=%q", in.Peer, req, out.Err)
		}
		m := 0
		for m < len(req) && m < len(in.Bodies) && in.Bodies[m] >= 0 && in.Bodies[m] == ch.Body[req[m]] {
			m++
		}
		if out.N > m {
			return fail("deliver-accepted-nonmatching", "accepted %d bodies for request %v, but only the first %d of the response %v match their headers", out.N, req, m, in.Bodies)
		}
		if out.N < 0 {
			return fail("deliver-negative", "accepted %d", out.N)
		}
		for i, id := range req {
			if i < out.N {
				n.Status[id] = c18Done
			} else {
				n.Status[id] = c18Queued
			}
		}
		n.Pend[in.Peer] = nil
	case C18Cancel:
		if n.Pend[in.Peer] == nil {
			return fail("harness-bug", "harness cancelled a request peer %d does not own", in.Peer)
		}
		release(in.Peer)
	case C18Revoke:
		release(in.Peer)
	case C18Expire:
		want := map[int]int{}
		if in.AgedSel {
			for _, p := range in.Aged {
				if n.Pend[p] != nil {
					want[p] = len(n.Pend[p])
				}
			}
		} else {
			for p, r := range n.Pend {
				if r != nil {
					want[p] = len(r)
				}
			}
		}
		if len(want) != len(out.Expired) {
			return fail("expire-report-mismatch", "reported %v, the expired requests are %v", out.Expired, want)
		}
		for p, c := range want {
			if out.Expired[p] != c {
				return fail("expire-report-mismatch", "reported %v, the expired requests are %v", out.Expired, want)
			}
		}
		ps := make([]int, 0, len(want))
		for p := range want {
			ps = append(ps, p)
		}
		sort.Ints(ps)
		for _, p := range ps {
			release(p)
		}
	case C18Results:
		for i, id := range out.IDs {
			if id != n.Released {
				return fail("results-out-of-order", "released header %d at position %d, the next unreleased is %d", id, i, n.Released)
			}
			st := n.Status[id]
			if !(st == c18Done || (st == c18Queued && ch.Empty[id])) {
				return fail("results-not-done", "released header %d which is %s", id, n.StatusName(id))
			}
			n.Status[id] = c18Released
			n.Released++
		}
	default:
		return fail("harness-bug", "unknown op")
	}
	return true, "", n
}
