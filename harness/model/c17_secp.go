package model

// Reference secp256k1 / ECDSA / transaction-hash model for C17, written from SEC 2 and the
// signing scheme description (EIP-155 style: hash = keccak(rlp([nonce, price, limit, to, value,
// payload, networkId, 0, 0])), V = 35 + 2*networkId + recid). Plain math/big, Jacobian
// coordinates; shares no code with go-youchain's crypto package (cgo libsecp256k1) nor with its
// rlp package.

import (
	"errors"
	"math/big"
)

var (
	SecpP, _  = new(big.Int).SetString("fffffffffffffffffffffffffffffffffffffffffffffffffffffffefffffc2f", 16)
	SecpN, _  = new(big.Int).SetString("fffffffffffffffffffffffffffffffebaaedce6af48a03bbfd25e8cd0364141", 16)
	SecpGx, _ = new(big.Int).SetString("79be667ef9dcbbac55a06295ce870b07029bfcdb2dce28d959f2815b16f81798", 16)
	SecpGy, _ = new(big.Int).SetString("483ada7726a3c4655da4fbfc0e1108a8fd17b448a68554199c47d08ffb10d4b8", 16)
	SecpHalfN = new(big.Int).Rsh(SecpN, 1)
	secpSqrtE = new(big.Int).Rsh(new(big.Int).Add(SecpP, big.NewInt(1)), 2) // (p+1)/4
)

// jacobian point; Z==0 is infinity
type jpt struct{ X, Y, Z *big.Int }

func jinf() jpt { return jpt{new(big.Int), new(big.Int).SetInt64(1), new(big.Int)} }

func mulmod(a, b *big.Int) *big.Int {
	r := new(big.Int).Mul(a, b)
	return r.Mod(r, SecpP)
}

// submod/addmod expect operands already reduced to [0, p).
func submod(a, b *big.Int) *big.Int {
	r := new(big.Int).Sub(a, b)
	if r.Sign() < 0 {
		r.Add(r, SecpP)
	}
	return r
}
func addmod(a, b *big.Int) *big.Int {
	r := new(big.Int).Add(a, b)
	if r.Cmp(SecpP) >= 0 {
		r.Sub(r, SecpP)
	}
	return r
}

// jdouble: dbl-2009-l formulas for a=0.
func jdouble(p jpt) jpt {
	if p.Z.Sign() == 0 || p.Y.Sign() == 0 {
		return jinf()
	}
	a := mulmod(p.X, p.X)
	b := mulmod(p.Y, p.Y)
	c := mulmod(b, b)
	t := addmod(p.X, b)
	t = mulmod(t, t)
	t = submod(t, a)
	t = submod(t, c)
	d := addmod(t, t)
	e := addmod(addmod(a, a), a)
	f := mulmod(e, e)
	x3 := submod(f, addmod(d, d))
	c8 := addmod(c, c)
	c8 = addmod(c8, c8)
	c8 = addmod(c8, c8)
	y3 := submod(mulmod(e, submod(d, x3)), c8)
	z3 := mulmod(p.Y, p.Z)
	z3 = addmod(z3, z3)
	return jpt{x3, y3, z3}
}

// jadd: general addition (add-2007-bl without the Z1=Z2 shortcuts).
func jadd(p, q jpt) jpt {
	if p.Z.Sign() == 0 {
		return q
	}
	if q.Z.Sign() == 0 {
		return p
	}
	z1z1 := mulmod(p.Z, p.Z)
	z2z2 := mulmod(q.Z, q.Z)
	u1 := mulmod(p.X, z2z2)
	u2 := mulmod(q.X, z1z1)
	s1 := mulmod(mulmod(p.Y, q.Z), z2z2)
	s2 := mulmod(mulmod(q.Y, p.Z), z1z1)
	if u1.Cmp(u2) == 0 {
		if s1.Cmp(s2) == 0 {
			return jdouble(p)
		}
		return jinf()
	}
	h := submod(u2, u1)
	r := submod(s2, s1)
	h2 := mulmod(h, h)
	h3 := mulmod(h2, h)
	u1h2 := mulmod(u1, h2)
	x3 := submod(submod(mulmod(r, r), h3), addmod(u1h2, u1h2))
	y3 := submod(mulmod(r, submod(u1h2, x3)), mulmod(s1, h3))
	z3 := mulmod(mulmod(h, p.Z), q.Z)
	return jpt{x3, y3, z3}
}

func jaffine(p jpt) (x, y *big.Int, inf bool) {
	if p.Z.Sign() == 0 {
		return nil, nil, true
	}
	zi := new(big.Int).ModInverse(p.Z, SecpP)
	zi2 := mulmod(zi, zi)
	return mulmod(p.X, zi2), mulmod(p.Y, mulmod(zi2, zi)), false
}

func jmul(k *big.Int, x, y *big.Int) jpt {
	k = new(big.Int).Mod(k, SecpN)
	base := jpt{new(big.Int).Mod(x, SecpP), new(big.Int).Mod(y, SecpP), big.NewInt(1)}
	acc := jinf()
	for i := k.BitLen() - 1; i >= 0; i-- {
		acc = jdouble(acc)
		if k.Bit(i) == 1 {
			acc = jadd(acc, base)
		}
	}
	return acc
}

// jmul2 = k1*P1 + k2*P2 (simultaneous double-and-add).
func jmul2(k1, x1, y1, k2, x2, y2 *big.Int) jpt {
	k1 = new(big.Int).Mod(k1, SecpN)
	k2 = new(big.Int).Mod(k2, SecpN)
	p1 := jpt{new(big.Int).Mod(x1, SecpP), new(big.Int).Mod(y1, SecpP), big.NewInt(1)}
	p2 := jpt{new(big.Int).Mod(x2, SecpP), new(big.Int).Mod(y2, SecpP), big.NewInt(1)}
	p12 := jadd(p1, p2)
	n := k1.BitLen()
	if k2.BitLen() > n {
		n = k2.BitLen()
	}
	acc := jinf()
	for i := n - 1; i >= 0; i-- {
		acc = jdouble(acc)
		switch k1.Bit(i) | k2.Bit(i)<<1 {
		case 1:
			acc = jadd(acc, p1)
		case 2:
			acc = jadd(acc, p2)
		case 3:
			acc = jadd(acc, p12)
		}
	}
	return acc
}

// SecpOnCurve reports y^2 = x^3 + 7 with 0 <= x,y < p.
func SecpOnCurve(x, y *big.Int) bool {
	if x.Sign() < 0 || y.Sign() < 0 || x.Cmp(SecpP) >= 0 || y.Cmp(SecpP) >= 0 {
		return false
	}
	l := mulmod(y, y)
	r := new(big.Int).Add(mulmod(mulmod(x, x), x), big.NewInt(7))
	r.Mod(r, SecpP)
	return l.Cmp(r) == 0
}

// SecpPub returns d*G (d must be in [1, n-1]).
func SecpPub(d *big.Int) (x, y *big.Int) {
	x, y, _ = jaffine(jmul(d, SecpGx, SecpGy))
	return
}

func pad32(x *big.Int) []byte {
	b := x.Bytes()
	o := make([]byte, 32)
	copy(o[32-len(b):], b)
	return o
}

// SecpAddress = last 20 bytes of keccak256(X || Y).
func SecpAddress(x, y *big.Int) [20]byte {
	var a [20]byte
	copy(a[:], Keccak256(pad32(x), pad32(y))[12:])
	return a
}

var ErrSecpInvalid = errors.New("model: invalid signature")

// SecpRecover returns the public key Q such that (r, s) is a valid ECDSA signature of hash under
// Q, with R's y parity = recid&1 and R.x = r + (recid>>1)*n. Errors: r or s outside [1, n-1],
// recid > 3, R.x >= p, R.x not on the curve, Q = infinity. No low-s rule here (callers apply it).
func SecpRecover(hash []byte, r, s *big.Int, recid int) (qx, qy *big.Int, err error) {
	if len(hash) != 32 || recid < 0 || recid > 3 {
		return nil, nil, ErrSecpInvalid
	}
	if r.Sign() <= 0 || s.Sign() <= 0 || r.Cmp(SecpN) >= 0 || s.Cmp(SecpN) >= 0 {
		return nil, nil, ErrSecpInvalid
	}
	x := new(big.Int).Set(r)
	if recid&2 != 0 {
		x.Add(x, SecpN)
	}
	if x.Cmp(SecpP) >= 0 {
		return nil, nil, ErrSecpInvalid
	}
	y2 := new(big.Int).Add(mulmod(mulmod(x, x), x), big.NewInt(7))
	y2.Mod(y2, SecpP)
	y := new(big.Int).Exp(y2, secpSqrtE, SecpP)
	if mulmod(y, y).Cmp(y2) != 0 {
		return nil, nil, ErrSecpInvalid
	}
	if int(y.Bit(0)) != recid&1 {
		y.Sub(SecpP, y)
	}
	e := new(big.Int).SetBytes(hash)
	ri := new(big.Int).ModInverse(r, SecpN)
	// Q = r^-1 (s*R - e*G)
	u1 := new(big.Int).Mul(ri, s)
	u1.Mod(u1, SecpN)
	u2 := new(big.Int).Mul(ri, e)
	u2.Neg(u2)
	u2.Mod(u2, SecpN)
	q := jmul2(u1, x, y, u2, SecpGx, SecpGy)
	qx, qy, inf := jaffine(q)
	if inf {
		return nil, nil, ErrSecpInvalid
	}
	return qx, qy, nil
}

// SecpVerify is textbook ECDSA verification.
func SecpVerify(hash []byte, r, s, qx, qy *big.Int) bool {
	if r.Sign() <= 0 || s.Sign() <= 0 || r.Cmp(SecpN) >= 0 || s.Cmp(SecpN) >= 0 || !SecpOnCurve(qx, qy) {
		return false
	}
	e := new(big.Int).SetBytes(hash)
	w := new(big.Int).ModInverse(s, SecpN)
	u1 := new(big.Int).Mul(e, w)
	u1.Mod(u1, SecpN)
	u2 := new(big.Int).Mul(r, w)
	u2.Mod(u2, SecpN)
	x, _, inf := jaffine(jmul2(u1, SecpGx, SecpGy, u2, qx, qy))
	if inf {
		return false
	}
	x.Mod(x, SecpN)
	return x.Cmp(r) == 0
}

// SecpSign signs with the caller-provided nonce k (in [1, n-1]); returns r, s (NOT normalised to
// low-s) and the recovery id of (r, s). ok=false if r or s is zero.
func SecpSign(hash []byte, d, k *big.Int) (r, s *big.Int, recid int, ok bool) {
	rx, ry, inf := jaffine(jmul(k, SecpGx, SecpGy))
	if inf {
		return nil, nil, 0, false
	}
	r = new(big.Int).Mod(rx, SecpN)
	if r.Sign() == 0 {
		return nil, nil, 0, false
	}
	recid = int(ry.Bit(0))
	if rx.Cmp(SecpN) >= 0 {
		recid |= 2
	}
	e := new(big.Int).SetBytes(hash)
	ki := new(big.Int).ModInverse(k, SecpN)
	s = new(big.Int).Mul(r, d)
	s.Add(s, e)
	s.Mul(s, ki)
	s.Mod(s, SecpN)
	if s.Sign() == 0 {
		return nil, nil, 0, false
	}
	return r, s, recid, true
}

// ---- transaction encoding ----

// RlpBig encodes a non-negative integer as the RLP string of its minimal big-endian bytes.
func RlpBig(x *big.Int) []byte { return RlpBytes(x.Bytes()) }

// TxFields are the signed fields of a transaction; To == nil means contract creation.
type TxFields struct {
	Nonce   uint64
	Price   *big.Int
	Limit   uint64
	To      *[20]byte
	Value   *big.Int
	Payload []byte
}

func (f *TxFields) items() [][]byte {
	to := RlpBytes(nil)
	if f.To != nil {
		to = RlpBytes(f.To[:])
	}
	return [][]byte{RlpUint(f.Nonce), RlpBig(f.Price), RlpUint(f.Limit), to, RlpBig(f.Value), RlpBytes(f.Payload)}
}

// TxSigHash is the hash a sender signs for network id net.
func TxSigHash(f *TxFields, net *big.Int) []byte {
	it := append(f.items(), RlpBig(net), RlpUint(0), RlpUint(0))
	return Keccak256(RlpList(it...))
}

// TxEncode is the wire encoding rlp([nonce, price, limit, to, value, payload, v, r, s]); v, r, s
// must be non-negative.
func TxEncode(f *TxFields, v, r, s *big.Int) []byte {
	it := append(f.items(), RlpBig(v), RlpBig(r), RlpBig(s))
	return RlpList(it...)
}

// TxHash identifies a signed transaction.
func TxHash(f *TxFields, v, r, s *big.Int) []byte { return Keccak256(TxEncode(f, v, r, s)) }

// CreateAddress = keccak(rlp([sender, nonce]))[12:].
func CreateAddress(sender [20]byte, nonce uint64) [20]byte {
	var a [20]byte
	copy(a[:], Keccak256(RlpList(RlpBytes(sender[:]), RlpUint(nonce)))[12:])
	return a
}

// IntrinsicGas: base + 16 per non-zero payload byte + 4 per zero byte (Istanbul prices).
func IntrinsicGas(base uint64, payload []byte) *big.Int {
	g := new(big.Int).SetUint64(base)
	var nz, z int64
	for _, b := range payload {
		if b != 0 {
			nz++
		} else {
			z++
		}
	}
	g.Add(g, big.NewInt(16*nz))
	g.Add(g, big.NewInt(4*z))
	return g
}
