package model

import "fmt"

// Reference state machine for property C12, written from the property statement (NOT from
// core.VerifyYouVersionState): "the active protocol version changes only at the round announced
// by an upgrade proposal that collected at least the approval threshold within its voting window,
// with each block adding at most one approval, and never earlier than the minimum waiting period
// after the window closes".
//
// The monitor pins everything a proposal announces (target version, window end, switch round,
// the proposing version's parameters) at the header that announces it and counts approvals
// itself; what later headers carry in NextVoteBefore / NextSwitchOn is ignored on purpose.

// C12Params are the upgrade parameters of one protocol version.
type C12Params struct {
	VoteRounds uint64 `json:"voteRounds"`
	Threshold  uint64 `json:"threshold"`
	MinWait    uint64 `json:"minWait"`
	MaxWait    uint64 `json:"maxWait"`
}

// C12Hdr is the on-chain upgrade state carried by one header.
type C12Hdr struct {
	Round      uint64 `json:"n"`
	Curr       uint64 `json:"cv"`
	Next       uint64 `json:"nv"`
	Approvals  uint64 `json:"na"`
	VoteBefore uint64 `json:"vb"`
	SwitchOn   uint64 `json:"so"`
}

func (h C12Hdr) String() string {
	return fmt.Sprintf("{n=%d cv=%d nv=%d na=%d vb=%d so=%d}", h.Round, h.Curr, h.Next, h.Approvals, h.VoteBefore, h.SwitchOn)
}

// Violation classes of the trace checker.
const (
	C12SwitchWithoutProposal = "switch-without-proposal"
	C12SwitchWrongRound      = "switch-wrong-round"
	C12SwitchWrongVersion    = "switch-wrong-version"
	C12SwitchBeforeMinWait   = "switch-before-min-wait"
	C12SwitchWithoutQuorum   = "switch-without-quorum"
	C12ApprovalsJump         = "approvals-jump"
	// exact predictors of two specific ways the quorum can be missing
	C12ApprovalAtWindowEnd   = "approval-counted-at-window-end"  // quorum only with the approval added by the block AT the announced window end
	C12ApprovalAfterWindow   = "approval-counted-after-window"   // quorum only with approvals added after the announced window end
	C12ZeroWaitWithoutQuorum = "zero-wait-switch-without-quorum" // announced switch round == announced window end, switch happens there without quorum
)

// C12Monitor is the online trace checker. The zero value is "no proposal".
type C12Monitor struct {
	Live      bool
	Target    uint64    // announced target version
	Announced uint64    // round of the announcing header
	VoteEnd   uint64    // NextVoteBefore as announced
	WinEnd    uint64    // first round outside the window: min(VoteEnd, Announced+VoteRounds)
	SwitchOn  uint64    // NextSwitchOn as announced
	P         C12Params // parameters of the proposing (active) version, pinned
	InWindow  uint64    // approvals added by blocks of rounds < WinEnd (counted by the monitor)
	AtEnd     uint64    // approvals added by the block of round == WinEnd
	Late      uint64    // approvals added by blocks of rounds > WinEnd
	Event     string    // what the last step was: none|announce|approve-in|approve-at-end|approve-late|hold|clear|switch
	// AtEndByBuilder is a note kept for the harness (set by the caller, reset with every
	// announcement): the approval of the window-end round was added by the builder under test.
	AtEndByBuilder bool
	Switches       int
}

func (m *C12Monitor) approve(n uint64) {
	switch {
	case n < m.WinEnd:
		m.InWindow++
		m.Event = "approve-in"
	case n == m.WinEnd:
		m.AtEnd++
		m.Event = "approve-at-end"
	default:
		m.Late++
		m.Event = "approve-late"
	}
}

// Step consumes header h (already accepted by the verifier under test) whose parent is p.
// paramsOf returns the parameters of a locally known version. The first violated clause of the
// statement is returned as (class, message); "" means the step is consistent with the statement.
func (m *C12Monitor) Step(p, h C12Hdr, paramsOf func(uint64) (C12Params, bool)) (class, msg string) {
	n := h.Round
	m.Event = "none"
	if h.Curr != p.Curr {
		// the active version changes at round n
		switch {
		case !m.Live:
			class, msg = C12SwitchWithoutProposal, fmt.Sprintf("version %d -> %d at round %d with no upgrade proposal pending", p.Curr, h.Curr, n)
		case n != m.SwitchOn:
			class, msg = C12SwitchWrongRound, fmt.Sprintf("version %d -> %d at round %d, the proposal of round %d announced the switch for round %d", p.Curr, h.Curr, n, m.Announced, m.SwitchOn)
		case h.Curr != m.Target:
			class, msg = C12SwitchWrongVersion, fmt.Sprintf("version %d -> %d at round %d, the proposal of round %d announced version %d", p.Curr, h.Curr, n, m.Announced, m.Target)
		case n < m.WinEnd+m.P.MinWait:
			class, msg = C12SwitchBeforeMinWait, fmt.Sprintf("version %d -> %d at round %d, earlier than window end %d + min wait %d", p.Curr, h.Curr, n, m.WinEnd, m.P.MinWait)
		case m.InWindow < m.P.Threshold:
			detail := fmt.Sprintf("version %d -> %d at round %d: proposal of round %d (window [%d,%d), threshold %d) collected %d approvals inside the window, %d at the window-end round, %d later; header-carried count %d",
				p.Curr, h.Curr, n, m.Announced, m.Announced, m.WinEnd, m.P.Threshold, m.InWindow, m.AtEnd, m.Late, p.Approvals)
			switch {
			case m.SwitchOn == m.VoteEnd:
				class = C12ZeroWaitWithoutQuorum
			case m.InWindow+m.AtEnd >= m.P.Threshold:
				class = C12ApprovalAtWindowEnd
			case m.InWindow+m.AtEnd+m.Late >= m.P.Threshold:
				class = C12ApprovalAfterWindow
			default:
				class = C12SwitchWithoutQuorum
			}
			msg = detail
		}
		m.Live = false
		m.Switches++
		m.Event = "switch"
		if h.Next == 0 {
			return
		}
		// a header that switches and announces at once: fall through to the announcement
	}
	if h.Next == 0 {
		if m.Live {
			m.Event = "clear"
		}
		m.Live = false
		return
	}
	if !m.Live || h.Next != m.Target {
		// a (new) proposal is announced by this header; approvals collected for another target do not count
		par, _ := paramsOf(h.Curr)
		ev := m.Event
		*m = C12Monitor{Live: true, Target: h.Next, Announced: n, VoteEnd: h.VoteBefore, SwitchOn: h.SwitchOn, P: par, Switches: m.Switches}
		m.WinEnd = h.VoteBefore
		if n+par.VoteRounds < m.WinEnd {
			m.WinEnd = n + par.VoteRounds
		}
		if h.Approvals >= 1 {
			m.approve(n)
		}
		if ev != "switch" {
			m.Event = "announce"
		} else {
			m.Event = "switch"
		}
		if h.Approvals > 1 && class == "" {
			class, msg = C12ApprovalsJump, fmt.Sprintf("the announcing header of round %d carries %d approvals (one block adds at most one)", n, h.Approvals)
		}
		return
	}
	// the pending proposal continues
	m.Event = "hold"
	if h.Approvals > p.Approvals {
		m.approve(n)
		if h.Approvals > p.Approvals+1 && class == "" {
			class, msg = C12ApprovalsJump, fmt.Sprintf("approvals %d -> %d in the single block of round %d", p.Approvals, h.Approvals, n)
		}
	}
	return
}
