package model

// C04 reference model, part 2: the VRF output and the proposer priority, recomputed without
// go-youchain and without libsecp256k1 (affine secp256k1 arithmetic on math/big, SHA-2 from the
// standard library, Keccak from x/crypto).
//
//   VRF value(k, m) = SHA256( 0x04 || X || Y )  with (X,Y) = [k] H1(m)
//   H1(m)           = first i in 0..99 such that x = SHA512(be32(i) || m)[0:32] is the abscissa of a
//                     curve point; the point with even y is taken (compressed prefix 0x02)
//   priority(v, j)  = max over i = 0..j of Keccak256( v || minimal-big-endian(i) )   (i = 0 -> empty)
//   M(seed, step, index) = seed(32) || be32(step) || be32(index)

import (
	"crypto/sha256"
	"crypto/sha512"
	"encoding/binary"
	"math/big"
)

var (
	c04P, _  = new(big.Int).SetString("FFFFFFFFFFFFFFFFFFFFFFFFFFFFFFFFFFFFFFFFFFFFFFFFFFFFFFFEFFFFFC2F", 16)
	C04N, _  = new(big.Int).SetString("FFFFFFFFFFFFFFFFFFFFFFFFFFFFFFFEBAAEDCE6AF48A03BBFD25E8CD0364141", 16)
	c04Gx, _ = new(big.Int).SetString("79BE667EF9DCBBAC55A06295CE870B07029BFCDB2DCE28D959F2815B16F81798", 16)
	c04Gy, _ = new(big.Int).SetString("483ADA7726A3C4655DA4FBFC0E1108A8FD17B448A68554199C47D08FFB10D4B8", 16)
)

type c04Pt struct {
	x, y *big.Int
	inf  bool
}

func c04mod(x *big.Int) *big.Int { return x.Mod(x, c04P) }

func c04add(a, b c04Pt) c04Pt {
	if a.inf {
		return b
	}
	if b.inf {
		return a
	}
	var lam *big.Int
	if a.x.Cmp(b.x) == 0 {
		if a.y.Cmp(b.y) != 0 || a.y.Sign() == 0 {
			return c04Pt{inf: true}
		}
		// doubling: lam = 3x^2 / 2y
		num := new(big.Int).Mul(a.x, a.x)
		num.Mul(num, big.NewInt(3))
		den := new(big.Int).Lsh(a.y, 1)
		den.ModInverse(c04mod(den), c04P)
		lam = c04mod(num.Mul(num, den))
	} else {
		num := new(big.Int).Sub(b.y, a.y)
		den := new(big.Int).Sub(b.x, a.x)
		den.ModInverse(c04mod(den), c04P)
		lam = c04mod(num.Mul(c04mod(num), den))
	}
	x3 := new(big.Int).Mul(lam, lam)
	x3.Sub(x3, a.x)
	x3.Sub(x3, b.x)
	c04mod(x3)
	y3 := new(big.Int).Sub(a.x, x3)
	y3.Mul(y3, lam)
	y3.Sub(y3, a.y)
	c04mod(y3)
	return c04Pt{x: x3, y: y3}
}

func c04mul(p c04Pt, k *big.Int) c04Pt {
	r := c04Pt{inf: true}
	for i := k.BitLen() - 1; i >= 0; i-- {
		r = c04add(r, r)
		if k.Bit(i) == 1 {
			r = c04add(r, p)
		}
	}
	return r
}

func c04onCurve(x, y *big.Int) bool {
	l := new(big.Int).Mul(y, y)
	c04mod(l)
	r := new(big.Int).Mul(x, x)
	r.Mul(r, x)
	r.Add(r, big.NewInt(7))
	c04mod(r)
	return l.Cmp(r) == 0
}

// c04H1 hashes a message to a curve point (try-and-increment on SHA-512, even y).
func c04H1(m []byte) (c04Pt, bool) {
	e := new(big.Int).Add(c04P, big.NewInt(1))
	e.Rsh(e, 2) // (P+1)/4, P = 3 mod 4
	for i := uint32(0); i < 100; i++ {
		h := sha512.New()
		var ib [4]byte
		binary.BigEndian.PutUint32(ib[:], i)
		h.Write(ib[:])
		h.Write(m)
		d := h.Sum(nil)
		x := new(big.Int).SetBytes(d[:32])
		rhs := new(big.Int).Mul(x, x)
		rhs.Mul(rhs, x)
		rhs.Add(rhs, big.NewInt(7))
		c04mod(rhs)
		y := new(big.Int).Exp(rhs, e, c04P)
		chk := new(big.Int).Mul(y, y)
		if c04mod(chk).Cmp(rhs) != 0 {
			continue
		}
		if y.Bit(0) != 0 {
			y.Sub(c04P, y)
		}
		return c04Pt{x: x, y: y}, true
	}
	return c04Pt{}, false
}

func c04pad32(x *big.Int) []byte {
	b := x.Bytes()
	out := make([]byte, 32)
	copy(out[32-len(b):], b)
	return out
}

// C04PubKey returns [k]G (uncompressed coordinates).
func C04PubKey(k *big.Int) (x, y *big.Int) {
	p := c04mul(c04Pt{x: c04Gx, y: c04Gy}, k)
	return p.x, p.y
}

// C04VrfValue is the reference VRF output for secret scalar k on message m, and the 65-byte
// encoding of the VRF point that an honest proof must carry in its bytes [64:129].
func C04VrfValue(k *big.Int, m []byte) (value [32]byte, point []byte, ok bool) {
	h, found := c04H1(m)
	if !found {
		return value, nil, false
	}
	if h.x.Cmp(c04P) >= 0 {
		return value, nil, false // (probability 2^-223; left unjudged)
	}
	v := c04mul(h, k)
	if v.inf {
		return value, nil, false
	}
	point = append([]byte{4}, c04pad32(v.x)...)
	point = append(point, c04pad32(v.y)...)
	return sha256.Sum256(point), point, true
}

// C04M is the sortition message.
func C04M(seed [32]byte, step, index uint32) []byte {
	m := make([]byte, 40)
	copy(m, seed[:])
	binary.BigEndian.PutUint32(m[32:], step)
	binary.BigEndian.PutUint32(m[36:], index)
	return m
}

// C04SeatHash = Keccak256(value || minimal big-endian i).
func C04SeatHash(value [32]byte, i uint64) [32]byte {
	var out [32]byte
	copy(out[:], Keccak256(value[:], new(big.Int).SetUint64(i).Bytes()))
	return out
}

// C04Priority returns the largest seat hash over i = 0..j and the i that attains it.
func C04Priority(value [32]byte, j uint64) (best [32]byte, arg uint64) {
	bi := new(big.Int)
	for i := uint64(0); i <= j; i++ {
		h := C04SeatHash(value, i)
		hi := new(big.Int).SetBytes(h[:])
		if hi.Cmp(bi) > 0 {
			bi, best, arg = hi, h, i
		}
	}
	return
}
