// Package model holds reference models written from specifications, independent of the
// repository's implementations.
package model

import (
	"bytes"
	"sort"

	"golang.org/x/crypto/sha3"
)

// Keccak256 via x/crypto (not the repository's copy).
func Keccak256(b ...[]byte) []byte {
	h := sha3.NewLegacyKeccak256()
	for _, x := range b {
		h.Write(x)
	}
	return h.Sum(nil)
}

// ---- minimal RLP encoder (Yellow Paper appendix B) ----

func rlpLen(n int, off byte) []byte {
	if n < 56 {
		return []byte{off + byte(n)}
	}
	var be []byte
	for x := n; x > 0; x >>= 8 {
		be = append([]byte{byte(x)}, be...)
	}
	return append([]byte{off + 55 + byte(len(be))}, be...)
}

// RlpBytes encodes a byte string.
func RlpBytes(b []byte) []byte {
	if len(b) == 1 && b[0] < 0x80 {
		return []byte{b[0]}
	}
	return append(rlpLen(len(b), 0x80), b...)
}

// RlpList wraps already-encoded items into a list.
func RlpList(items ...[]byte) []byte {
	var body []byte
	for _, it := range items {
		body = append(body, it...)
	}
	return append(rlpLen(len(body), 0xc0), body...)
}

// RlpUint encodes an unsigned integer canonically.
func RlpUint(v uint64) []byte {
	if v == 0 {
		return []byte{0x80}
	}
	var be []byte
	for x := v; x > 0; x >>= 8 {
		be = append([]byte{byte(x)}, be...)
	}
	return RlpBytes(be)
}

// ---- Merkle-Patricia root (Yellow Paper appendix D) ----

type kv struct {
	nib []byte
	val []byte
}

func toNibbles(k []byte) []byte {
	n := make([]byte, 0, len(k)*2)
	for _, b := range k {
		n = append(n, b>>4, b&15)
	}
	return n
}

func hexPrefix(nib []byte, leaf bool) []byte {
	flag := byte(0)
	if leaf {
		flag = 2
	}
	var out []byte
	if len(nib)%2 == 1 {
		out = append(out, (flag+1)<<4|nib[0])
		nib = nib[1:]
	} else {
		out = append(out, flag<<4)
	}
	for i := 0; i < len(nib); i += 2 {
		out = append(out, nib[i]<<4|nib[i+1])
	}
	return out
}

// ref returns the reference to a node as it appears inside its parent: the node's RLP itself
// when shorter than 32 bytes, otherwise an RLP string holding its hash.
func ref(enc []byte) []byte {
	if len(enc) < 32 {
		return enc
	}
	return RlpBytes(Keccak256(enc))
}

func build(items []kv, i int) []byte {
	if len(items) == 0 {
		return RlpBytes(nil)
	}
	if len(items) == 1 {
		return RlpList(RlpBytes(hexPrefix(items[0].nib[i:], true)), RlpBytes(items[0].val))
	}
	// longest common prefix beyond i
	l := len(items[0].nib) - i
	for _, it := range items[1:] {
		m := 0
		for m < l && i+m < len(it.nib) && it.nib[i+m] == items[0].nib[i+m] {
			m++
		}
		l = m
	}
	if l > 0 {
		return RlpList(RlpBytes(hexPrefix(items[0].nib[i:i+l], false)), ref(build(items, i+l)))
	}
	children := make([][]byte, 17)
	var val []byte
	var rest [16][]kv
	for _, it := range items {
		if len(it.nib) == i {
			val = it.val
			continue
		}
		rest[it.nib[i]] = append(rest[it.nib[i]], it)
	}
	for n := 0; n < 16; n++ {
		if len(rest[n]) == 0 {
			children[n] = RlpBytes(nil)
		} else {
			children[n] = ref(build(rest[n], i+1))
		}
	}
	children[16] = RlpBytes(val)
	return RlpList(children...)
}

// MPTRoot computes the Merkle-Patricia root of a byte-key -> value map (empty values absent).
func MPTRoot(content map[string][]byte) []byte {
	items := make([]kv, 0, len(content))
	for k, v := range content {
		if len(v) == 0 {
			continue
		}
		items = append(items, kv{toNibbles([]byte(k)), v})
	}
	sort.Slice(items, func(a, b int) bool { return bytes.Compare(items[a].nib, items[b].nib) < 0 })
	return Keccak256(build(items, 0))
}
