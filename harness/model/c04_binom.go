package model

// C04 reference model, part 1: the binomial distribution in exact (384-bit) arithmetic.
//
// Written from the definition  pmf(k) = C(n,k) p^k (1-p)^(n-k)  only: unnormalised weights are
// generated from the mode outwards with the ratio  pmf(k+1)/pmf(k) = (n-k)/(k+1) * p/(1-p)  until
// they fall below 2^-460 of the mode weight, then normalised by their sum (the discarded mass is
// < 2^-440, far below every tolerance and every representable 1-t = (2^256-1-h)/(2^256-1)).
// No floating point, no incomplete beta function, nothing shared with gonum or with go-youchain.

import (
	"math/big"
)

const (
	c04Prec = 384
	c04Cut  = 460
)

// C04Table holds pmf, lower CDF and survival function of Binomial(N, P) on the window [Lo, Hi]
// outside of which the mass is negligible (< 2^-440).
type C04Table struct {
	N      int64
	P      float64
	Lo, Hi int64
	Mode   int64
	Pmf    []*big.Float // Pmf[k-Lo] = Pr(X = k)
	Cdf    []*big.Float // Cdf[k-Lo] = Pr(X <= k), summed upwards from Lo
	Sf     []*big.Float // Sf[k-Lo]  = Pr(X > k), summed downwards from Hi (relative accuracy in the upper tail)
	Q      *big.Float   // 1-P
}

func c04f() *big.Float { return new(big.Float).SetPrec(c04Prec) }

// C04NewTable builds the table for 0 < p < 1, n >= 1. It returns nil when the window would need
// more than maxTerms terms (caller picks another configuration).
func C04NewTable(n int64, p float64, maxTerms int) *C04Table {
	if !(p > 0 && p < 1) || n < 1 {
		return nil
	}
	pf := c04f().SetFloat64(p) // exact
	q := c04f().Sub(c04f().SetInt64(1), pf)
	r := c04f().Quo(pf, q)
	// a point next to the mode: floor((n+1)p), clipped
	mf := c04f().Mul(c04f().SetInt64(n+1), pf)
	mi, _ := mf.Int(nil)
	m := mi.Int64()
	if m > n {
		m = n
	}
	if m < 0 {
		m = 0
	}
	one := c04f().SetInt64(1)
	up := []*big.Float{one} // weights of m, m+1, ...
	t1, t2 := c04f(), c04f()
	cur := one
	for k := m; k < n; k++ {
		// u(k+1) = u(k) * (n-k) / (k+1) * r
		nx := c04f().Mul(cur, t1.SetInt64(n-k))
		nx.Quo(nx, t2.SetInt64(k+1))
		nx.Mul(nx, r)
		up = append(up, nx)
		cur = nx
		if nx.MantExp(nil) < -c04Cut {
			break
		}
		if len(up) > maxTerms {
			return nil
		}
	}
	var down []*big.Float // weights of m-1, m-2, ...
	cur = one
	for k := m; k > 0; k-- {
		// u(k-1) = u(k) * k / (n-k+1) / r
		nx := c04f().Mul(cur, t1.SetInt64(k))
		nx.Quo(nx, t2.SetInt64(n-k+1))
		nx.Quo(nx, r)
		down = append(down, nx)
		cur = nx
		if nx.MantExp(nil) < -c04Cut {
			break
		}
		if len(up)+len(down) > maxTerms {
			return nil
		}
	}
	lo := m - int64(len(down))
	hi := m + int64(len(up)) - 1
	w := make([]*big.Float, 0, len(up)+len(down))
	for i := len(down) - 1; i >= 0; i-- {
		w = append(w, down[i])
	}
	w = append(w, up...)
	z := c04f()
	for _, x := range w {
		z.Add(z, x)
	}
	tb := &C04Table{N: n, P: p, Lo: lo, Hi: hi, Mode: m, Q: q}
	tb.Pmf = make([]*big.Float, len(w))
	tb.Cdf = make([]*big.Float, len(w))
	tb.Sf = make([]*big.Float, len(w))
	acc := c04f()
	for i, x := range w {
		tb.Pmf[i] = c04f().Quo(x, z)
		acc = c04f().Add(acc, tb.Pmf[i])
		tb.Cdf[i] = acc
	}
	acc = c04f()
	for i := len(w) - 1; i >= 0; i-- {
		tb.Sf[i] = acc
		acc = c04f().Add(acc, tb.Pmf[i])
	}
	return tb
}

var c04Zero = new(big.Float).SetPrec(c04Prec)
var c04One = new(big.Float).SetPrec(c04Prec).SetInt64(1)

// CdfAt = Pr(X <= k).
func (t *C04Table) CdfAt(k int64) *big.Float {
	if k < t.Lo {
		return c04Zero
	}
	if k > t.Hi {
		return c04One
	}
	return t.Cdf[k-t.Lo]
}

// SfAt = Pr(X > k).
func (t *C04Table) SfAt(k int64) *big.Float {
	if k < t.Lo {
		return c04One
	}
	if k >= t.Hi {
		return c04Zero
	}
	return t.Sf[k-t.Lo]
}

// PmfAt = Pr(X = k).
func (t *C04Table) PmfAt(k int64) *big.Float {
	if k < t.Lo || k > t.Hi {
		return c04Zero
	}
	return t.Pmf[k-t.Lo]
}

// Quantile returns the smallest k with Pr(X <= k) >= tt, decided on the survival side
// (Pr(X > k) <= ss, ss = 1-tt given separately so that it keeps its relative accuracy).
func (t *C04Table) Quantile(tt, ss *big.Float) int64 {
	// smallest index i in [0,len) with Sf[i] <= ss ; Sf is non-increasing and Sf[last] = 0
	lo, hi := 0, len(t.Sf)-1
	for lo < hi {
		h := (lo + hi) >> 1
		if t.Sf[h].Cmp(ss) <= 0 {
			hi = h
		} else {
			lo = h + 1
		}
	}
	// (Only used to pick interesting seat counts and for statistics; verdicts compare the
	// implementation's own answer against Cdf/Sf directly. Everything outside the window has mass
	// < 2^-440, which no h/(2^256-1) with 1 <= h <= 2^256-2 can resolve.)
	_ = tt
	return t.Lo + int64(lo)
}

// C04Max is 2^256 - 1, the denominator of the VRF-output fraction.
var C04Max = new(big.Int).Sub(new(big.Int).Lsh(big.NewInt(1), 256), big.NewInt(1))

// C04Frac returns t = h/(2^256-1) and s = 1-t = (2^256-1-h)/(2^256-1), each correctly rounded to
// 384 bits (s keeps full relative accuracy however close t is to 1).
func C04Frac(h *big.Int) (t, s *big.Float) {
	mx := c04f().SetInt(C04Max)
	t = c04f().Quo(c04f().SetInt(h), mx)
	s = c04f().Quo(c04f().SetInt(new(big.Int).Sub(C04Max, h)), mx)
	return
}

// C04HashOf returns floor(t*(2^256-1)) clipped to [0, 2^256-1].
func C04HashOf(t *big.Float) *big.Int {
	x := c04f().Mul(t, c04f().SetInt(C04Max))
	i, _ := x.Int(nil)
	if i.Sign() < 0 {
		return new(big.Int)
	}
	if i.Cmp(C04Max) > 0 {
		return new(big.Int).Set(C04Max)
	}
	return i
}

// C04HashOfTail returns (2^256-1) - floor(s*(2^256-1)) clipped, i.e. the hash whose 1-t is s.
func C04HashOfTail(s *big.Float) *big.Int {
	x := c04f().Mul(s, c04f().SetInt(C04Max))
	i, _ := x.Int(nil)
	if i.Sign() < 0 {
		return new(big.Int).Set(C04Max)
	}
	if i.Cmp(C04Max) > 0 {
		return new(big.Int)
	}
	return i.Sub(C04Max, i)
}

// C04F makes a 384-bit float from a float64 (exact).
func C04F(x float64) *big.Float { return c04f().SetFloat64(x) }

// C04New returns a zero 384-bit float.
func C04New() *big.Float { return c04f() }
