package model

// Generic RLP item trees, written from the Yellow Paper (appendix B), independent of the
// repository's rlp package. Used by C14 to (a) judge whether an encoding produced by the node
// is canonical RLP, (b) build structure-aware hostile variants of valid encodings, and (c)
// describe WHERE an accepted input differs from its re-encoding.

import (
	"bytes"
	"errors"
	"fmt"
	"sort"
)

// RNode is one RLP item: a byte string or a list of items.
type RNode struct {
	List bool
	Str  []byte
	Kids []*RNode

	// Encoding hints, honoured by Enc only (zero values = canonical encoding).
	LongLen  int    // >0: force the long form header with exactly this many length bytes (zero padded)
	NoSingle bool   // encode a single byte < 0x80 as 0x81 xx
	Claim    uint64 // with HasClaim: the length written into the header instead of the real one
	HasClaim bool
	Raw      []byte // non-nil: these bytes are emitted instead of the node
}

func Str(b []byte) *RNode      { return &RNode{Str: b} }
func Lst(k ...*RNode) *RNode   { return &RNode{List: true, Kids: k} }
func (n *RNode) IsEmpty() bool { return (n.List && len(n.Kids) == 0) || (!n.List && len(n.Str) == 0) }

// Clone makes a deep copy (hints included).
func (n *RNode) Clone() *RNode {
	c := *n
	if n.Str != nil {
		c.Str = append([]byte{}, n.Str...)
	}
	if n.Kids != nil {
		c.Kids = make([]*RNode, len(n.Kids))
		for i, k := range n.Kids {
			c.Kids[i] = k.Clone()
		}
	}
	return &c
}

// Walk calls f for every node with its path (indices from the root).
func (n *RNode) Walk(path []int, f func(path []int, n *RNode)) {
	f(path, n)
	for i, k := range n.Kids {
		k.Walk(append(append([]int{}, path...), i), f)
	}
}

func beBytes(v uint64) []byte {
	var be []byte
	for x := v; x > 0; x >>= 8 {
		be = append([]byte{byte(x)}, be...)
	}
	return be
}

func header(n *RNode, payloadLen int, off byte) []byte {
	l := uint64(payloadLen)
	if n.HasClaim {
		l = n.Claim
	}
	if n.LongLen > 0 {
		be := beBytes(l)
		for len(be) < n.LongLen {
			be = append([]byte{0}, be...)
		}
		if len(be) > 8 {
			be = be[len(be)-8:]
		}
		return append([]byte{off + 55 + byte(len(be))}, be...)
	}
	if l < 56 {
		return []byte{off + byte(l)}
	}
	be := beBytes(l)
	return append([]byte{off + 55 + byte(len(be))}, be...)
}

// Enc serialises the tree, honouring the hostile-encoding hints.
func (n *RNode) Enc() []byte {
	if n.Raw != nil {
		return n.Raw
	}
	if !n.List {
		if len(n.Str) == 1 && n.Str[0] < 0x80 && !n.NoSingle && n.LongLen == 0 && !n.HasClaim {
			return []byte{n.Str[0]}
		}
		return append(header(n, len(n.Str), 0x80), n.Str...)
	}
	var body []byte
	for _, k := range n.Kids {
		body = append(body, k.Enc()...)
	}
	return append(header(n, len(body), 0xc0), body...)
}

// Canon serialises the tree canonically, ignoring all hints.
func (n *RNode) Canon() []byte {
	if !n.List {
		return RlpBytes(n.Str)
	}
	items := make([][]byte, len(n.Kids))
	for i, k := range n.Kids {
		items[i] = k.Canon()
	}
	return RlpList(items...)
}

var errTrunc = errors.New("truncated")

// ParseLenient reads one item from b. It accepts every length form (non-minimal long forms,
// leading zero length bytes, wrapped single bytes) and only fails on truncation / lengths beyond
// the input. It returns the item and the number of bytes consumed.
func ParseLenient(b []byte) (*RNode, int, error) {
	return parse(b, 0)
}

func parse(b []byte, depth int) (*RNode, int, error) {
	if len(b) == 0 {
		return nil, 0, errTrunc
	}
	if depth > 100000 {
		return nil, 0, errors.New("too deep")
	}
	t := b[0]
	switch {
	case t < 0x80:
		return &RNode{Str: []byte{t}}, 1, nil
	case t < 0xb8:
		l := int(t - 0x80)
		if len(b) < 1+l {
			return nil, 0, errTrunc
		}
		return &RNode{Str: b[1 : 1+l]}, 1 + l, nil
	case t < 0xc0:
		ll := int(t - 0xb7)
		l, err := readLen(b[1:], ll)
		if err != nil {
			return nil, 0, err
		}
		if uint64(len(b)-1-ll) < l {
			return nil, 0, errTrunc
		}
		return &RNode{Str: b[1+ll : 1+ll+int(l)]}, 1 + ll + int(l), nil
	case t < 0xf8:
		l := int(t - 0xc0)
		if len(b) < 1+l {
			return nil, 0, errTrunc
		}
		kids, err := parseList(b[1:1+l], depth)
		if err != nil {
			return nil, 0, err
		}
		return &RNode{List: true, Kids: kids}, 1 + l, nil
	default:
		ll := int(t - 0xf7)
		l, err := readLen(b[1:], ll)
		if err != nil {
			return nil, 0, err
		}
		if uint64(len(b)-1-ll) < l {
			return nil, 0, errTrunc
		}
		kids, err := parseList(b[1+ll:1+ll+int(l)], depth)
		if err != nil {
			return nil, 0, err
		}
		return &RNode{List: true, Kids: kids}, 1 + ll + int(l), nil
	}
}

func readLen(b []byte, ll int) (uint64, error) {
	if len(b) < ll {
		return 0, errTrunc
	}
	var l uint64
	for i := 0; i < ll; i++ {
		l = l<<8 | uint64(b[i])
	}
	return l, nil
}

func parseList(b []byte, depth int) ([]*RNode, error) {
	kids := []*RNode{}
	for len(b) > 0 {
		k, n, err := parse(b, depth+1)
		if err != nil {
			return nil, err
		}
		kids = append(kids, k)
		b = b[n:]
	}
	return kids, nil
}

// CanonicalRLP reports whether b is exactly one canonically encoded RLP item.
func CanonicalRLP(b []byte) error {
	n, used, err := ParseLenient(b)
	if err != nil {
		return err
	}
	if used != len(b) {
		return fmt.Errorf("%d trailing bytes", len(b)-used)
	}
	if !bytes.Equal(n.Canon(), b) {
		return errors.New("non-minimal length header or wrapped single byte")
	}
	return nil
}

// DiffRLP describes the first difference between an accepted input tree a and the tree of its
// re-encoding b: the path of the differing node and the kind of difference:
//
//	emptylist-for-emptystring, emptystring-for-emptylist, kind, content, count, order
//
// ok is true when the trees are equal.
func DiffRLP(a, b *RNode) (path []int, kind string, ok bool) {
	return diff(a, b, nil)
}

func diff(a, b *RNode, path []int) ([]int, string, bool) {
	if a.List != b.List {
		if a.IsEmpty() && b.IsEmpty() {
			if a.List {
				return path, "emptylist-for-emptystring", false
			}
			return path, "emptystring-for-emptylist", false
		}
		return path, "kind", false
	}
	if !a.List {
		if bytes.Equal(a.Str, b.Str) {
			return nil, "", true
		}
		return path, "content", false
	}
	if len(a.Kids) != len(b.Kids) {
		return path, "count", false
	}
	// same children in another order?
	same := true
	for i := range a.Kids {
		if !bytes.Equal(a.Kids[i].Canon(), b.Kids[i].Canon()) {
			same = false
			break
		}
	}
	if same {
		return nil, "", true
	}
	if len(a.Kids) > 1 {
		ea, eb := make([]string, len(a.Kids)), make([]string, len(b.Kids))
		for i := range a.Kids {
			ea[i], eb[i] = string(a.Kids[i].Canon()), string(b.Kids[i].Canon())
		}
		sort.Strings(ea)
		sort.Strings(eb)
		perm := true
		for i := range ea {
			if ea[i] != eb[i] {
				perm = false
				break
			}
		}
		if perm {
			return path, "order", false
		}
	}
	for i := range a.Kids {
		if p, k, ok := diff(a.Kids[i], b.Kids[i], append(append([]int{}, path...), i)); !ok {
			return p, k, false
		}
	}
	return nil, "", true
}
