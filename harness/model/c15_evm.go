package model

// C15 reference evaluator: a tiny EVM for the computational opcode groups, written from the
// EVM specification (Yellow Paper section 9 / appendix H, EIP-145 for the shifts, EIP-160 for the
// EXP byte price, EIP-1884/EIP-2200 for SLOAD/SSTORE in Istanbul). Two's complement is done by
// explicit arithmetic modulo 2^256 on math/big values. Nothing from go-youchain is imported.
//
// C15Op      primary formulation (integer arithmetic on math/big)
// C15OpAlt   second, structurally different formulation (byte arrays, limbs, bit tests) used to
//            cross-check the reference itself; a disagreement between the two is a harness bug
//            (run becomes inconclusive), never a violation.
// C15Exec    bytecode interpreter for the subset with the hand-typed Istanbul gas table.

import (
	"math/big"
	"math/bits"
)

// Opcode numbers (Yellow Paper appendix H.2).
const (
	C15STOP           = 0x00
	C15ADD            = 0x01
	C15MUL            = 0x02
	C15SUB            = 0x03
	C15DIV            = 0x04
	C15SDIV           = 0x05
	C15MOD            = 0x06
	C15SMOD           = 0x07
	C15ADDMOD         = 0x08
	C15MULMOD         = 0x09
	C15EXP            = 0x0a
	C15SIGNEXTEND     = 0x0b
	C15LT             = 0x10
	C15GT             = 0x11
	C15SLT            = 0x12
	C15SGT            = 0x13
	C15EQ             = 0x14
	C15ISZERO         = 0x15
	C15AND            = 0x16
	C15OR             = 0x17
	C15XOR            = 0x18
	C15NOT            = 0x19
	C15BYTE           = 0x1a
	C15SHL            = 0x1b
	C15SHR            = 0x1c
	C15SAR            = 0x1d
	C15SHA3           = 0x20 // KECCAK256
	C15CALLDATALOAD   = 0x35
	C15CALLDATASIZE   = 0x36
	C15CALLDATACOPY   = 0x37
	C15CODESIZE       = 0x38
	C15CODECOPY       = 0x39
	C15RETURNDATASIZE = 0x3d // EIP-211
	C15RETURNDATACOPY = 0x3e // EIP-211
	C15POP            = 0x50
	C15MLOAD          = 0x51
	C15MSTORE         = 0x52
	C15MSTORE8        = 0x53
	C15SLOAD          = 0x54
	C15SSTORE         = 0x55
	C15MSIZE          = 0x59
	C15GAS            = 0x5a
	C15PUSH1          = 0x60
	C15PUSH32         = 0x7f
	C15DUP1           = 0x80
	C15DUP16          = 0x8f
	C15SWAP1          = 0x90
	C15SWAP16         = 0x9f
	C15LOG0           = 0xa0
	C15LOG4           = 0xa4
	C15RETURN         = 0xf3
	C15REVERT         = 0xfd // EIP-140
)

// C15OpNames: mnemonic of every opcode of the computational groups.
var C15OpNames = map[byte]string{
	C15ADD: "ADD", C15MUL: "MUL", C15SUB: "SUB", C15DIV: "DIV", C15SDIV: "SDIV", C15MOD: "MOD", C15SMOD: "SMOD",
	C15ADDMOD: "ADDMOD", C15MULMOD: "MULMOD", C15EXP: "EXP", C15SIGNEXTEND: "SIGNEXTEND",
	C15LT: "LT", C15GT: "GT", C15SLT: "SLT", C15SGT: "SGT", C15EQ: "EQ", C15ISZERO: "ISZERO",
	C15AND: "AND", C15OR: "OR", C15XOR: "XOR", C15NOT: "NOT", C15BYTE: "BYTE", C15SHL: "SHL", C15SHR: "SHR", C15SAR: "SAR",
}

// C15Arity: number of operands popped by each computational opcode (each pushes one result).
var C15Arity = map[byte]int{
	C15ADD: 2, C15MUL: 2, C15SUB: 2, C15DIV: 2, C15SDIV: 2, C15MOD: 2, C15SMOD: 2,
	C15ADDMOD: 3, C15MULMOD: 3, C15EXP: 2, C15SIGNEXTEND: 2,
	C15LT: 2, C15GT: 2, C15SLT: 2, C15SGT: 2, C15EQ: 2, C15ISZERO: 1,
	C15AND: 2, C15OR: 2, C15XOR: 2, C15NOT: 1, C15BYTE: 2, C15SHL: 2, C15SHR: 2, C15SAR: 2,
}

var c15arity [256]int8

func init() {
	for op, n := range C15Arity {
		c15arity[op] = int8(n)
	}
}

// C15Name names any opcode of the interpreted subset.
func C15Name(op byte) string {
	if n, ok := C15OpNames[op]; ok {
		return n
	}
	switch {
	case op == C15STOP:
		return "STOP"
	case op == C15POP:
		return "POP"
	case op == C15MLOAD:
		return "MLOAD"
	case op == C15MSTORE:
		return "MSTORE"
	case op == C15MSTORE8:
		return "MSTORE8"
	case op == C15SLOAD:
		return "SLOAD"
	case op == C15SSTORE:
		return "SSTORE"
	case op == C15RETURN:
		return "RETURN"
	case op == C15REVERT:
		return "REVERT"
	case op == C15SHA3:
		return "SHA3"
	case op == C15CALLDATALOAD:
		return "CALLDATALOAD"
	case op == C15CALLDATASIZE:
		return "CALLDATASIZE"
	case op == C15CALLDATACOPY:
		return "CALLDATACOPY"
	case op == C15CODESIZE:
		return "CODESIZE"
	case op == C15CODECOPY:
		return "CODECOPY"
	case op == C15RETURNDATASIZE:
		return "RETURNDATASIZE"
	case op == C15RETURNDATACOPY:
		return "RETURNDATACOPY"
	case op == C15MSIZE:
		return "MSIZE"
	case op == C15GAS:
		return "GAS"
	case op >= C15LOG0 && op <= C15LOG4:
		return "LOG" + itoa(int(op-C15LOG0))
	case op >= C15PUSH1 && op <= C15PUSH32:
		return "PUSH" + itoa(int(op-C15PUSH1)+1)
	case op >= C15DUP1 && op <= C15DUP16:
		return "DUP" + itoa(int(op-C15DUP1)+1)
	case op >= C15SWAP1 && op <= C15SWAP16:
		return "SWAP" + itoa(int(op-C15SWAP1)+1)
	}
	return "0x" + string("0123456789abcdef"[op>>4]) + string("0123456789abcdef"[op&15])
}

func itoa(n int) string {
	if n == 0 {
		return "0"
	}
	s := ""
	for n > 0 {
		s = string(rune('0'+n%10)) + s
		n /= 10
	}
	return s
}

var (
	c15One    = big.NewInt(1)
	c15Two256 = new(big.Int).Lsh(big.NewInt(1), 256)
	c15Two255 = new(big.Int).Lsh(big.NewInt(1), 255)
)

// C15Two256 returns 2^256 (a fresh value).
func C15Two256() *big.Int { return new(big.Int).Set(c15Two256) }

// c15wrap: the unique r with 0 <= r < 2^256 and r = x (mod 2^256). big.Int.Mod is Euclidean.
func c15wrap(x *big.Int) *big.Int { return new(big.Int).Mod(x, c15Two256) }

// c15signed: the two's complement reading of a word: x if x < 2^255, else x - 2^256.
func c15signed(x *big.Int) *big.Int {
	if x.Cmp(c15Two255) < 0 {
		return new(big.Int).Set(x)
	}
	return new(big.Int).Sub(x, c15Two256)
}

func c15bool(b bool) *big.Int {
	if b {
		return big.NewInt(1)
	}
	return big.NewInt(0)
}

// C15Op applies one computational opcode to its operands; a[0] is the top of the stack (µs[0]),
// every operand satisfies 0 <= a[i] < 2^256. The operands are not modified.
func C15Op(op byte, a []*big.Int) *big.Int {
	switch op {
	case C15ADD:
		return c15wrap(new(big.Int).Add(a[0], a[1]))
	case C15MUL:
		return c15wrap(new(big.Int).Mul(a[0], a[1]))
	case C15SUB:
		return c15wrap(new(big.Int).Sub(a[0], a[1]))
	case C15DIV:
		if a[1].Sign() == 0 {
			return big.NewInt(0)
		}
		return new(big.Int).Quo(a[0], a[1]) // operands non-negative: floor
	case C15SDIV:
		// 0 if µs[1]=0; -2^255 if µs[0]=-2^255 and µs[1]=-1; else sgn(µs[0]/µs[1])*floor(|µs[0]/µs[1]|)
		if a[1].Sign() == 0 {
			return big.NewInt(0)
		}
		x, y := c15signed(a[0]), c15signed(a[1])
		q := new(big.Int).Quo(x, y) // Quo truncates toward zero = sgn * floor(|x/y|)
		return c15wrap(q)           // -2^255 / -1 = 2^255 wraps to the word of -2^255
	case C15MOD:
		if a[1].Sign() == 0 {
			return big.NewInt(0)
		}
		return new(big.Int).Rem(a[0], a[1])
	case C15SMOD:
		// 0 if µs[1]=0; else sgn(µs[0]) * (|µs[0]| mod |µs[1]|)
		if a[1].Sign() == 0 {
			return big.NewInt(0)
		}
		x, y := c15signed(a[0]), c15signed(a[1])
		r := new(big.Int).Rem(new(big.Int).Abs(x), new(big.Int).Abs(y))
		if x.Sign() < 0 {
			r.Neg(r)
		}
		return c15wrap(r)
	case C15ADDMOD:
		// (µs[0]+µs[1]) mod µs[2], the intermediate sum is NOT reduced modulo 2^256
		if a[2].Sign() == 0 {
			return big.NewInt(0)
		}
		s := new(big.Int).Add(a[0], a[1])
		return s.Rem(s, a[2])
	case C15MULMOD:
		if a[2].Sign() == 0 {
			return big.NewInt(0)
		}
		p := new(big.Int).Mul(a[0], a[1])
		return p.Rem(p, a[2])
	case C15EXP:
		return new(big.Int).Exp(a[0], a[1], c15Two256)
	case C15SIGNEXTEND:
		// µs[0] = byte index b (0 = least significant byte), µs[1] = x. For b < 31 every bit above
		// t = 8b+7 becomes a copy of bit t; otherwise x unchanged.
		if a[0].Cmp(big.NewInt(31)) >= 0 {
			return new(big.Int).Set(a[1])
		}
		t := uint(a[0].Uint64())*8 + 7
		lowMod := new(big.Int).Lsh(c15One, t+1) // 2^(t+1)
		low := new(big.Int).Rem(a[1], lowMod)   // the t+1 low bits
		half := new(big.Int).Lsh(c15One, t)     // 2^t
		if low.Cmp(half) >= 0 {
			// sign bit set: value is low - 2^(t+1) as a signed number
			return c15wrap(low.Sub(low, lowMod))
		}
		return low
	case C15LT:
		return c15bool(a[0].Cmp(a[1]) < 0)
	case C15GT:
		return c15bool(a[0].Cmp(a[1]) > 0)
	case C15SLT:
		return c15bool(c15signed(a[0]).Cmp(c15signed(a[1])) < 0)
	case C15SGT:
		return c15bool(c15signed(a[0]).Cmp(c15signed(a[1])) > 0)
	case C15EQ:
		return c15bool(a[0].Cmp(a[1]) == 0)
	case C15ISZERO:
		return c15bool(a[0].Sign() == 0)
	case C15AND:
		return new(big.Int).And(a[0], a[1]) // non-negative operands: plain bitwise
	case C15OR:
		return new(big.Int).Or(a[0], a[1])
	case C15XOR:
		return new(big.Int).Xor(a[0], a[1])
	case C15NOT:
		// every bit flipped: (2^256 - 1) - x
		r := new(big.Int).Sub(c15Two256, c15One)
		return r.Sub(r, a[0])
	case C15BYTE:
		// µs[0] = i, µs[1] = x: the i-th byte of x counting from the most significant one; 0 if i >= 32
		if a[0].Cmp(big.NewInt(32)) >= 0 {
			return big.NewInt(0)
		}
		i := uint(a[0].Uint64())
		r := new(big.Int).Rsh(a[1], 8*(31-i))
		return r.Rem(r, big.NewInt(256))
	case C15SHL:
		// EIP-145: µs[0] = shift, µs[1] = value; (value * 2^shift) mod 2^256; 0 if shift >= 256
		if a[0].Cmp(big.NewInt(256)) >= 0 {
			return big.NewInt(0)
		}
		p := new(big.Int).Mul(a[1], new(big.Int).Lsh(c15One, uint(a[0].Uint64())))
		return c15wrap(p)
	case C15SHR:
		// floor(value / 2^shift); 0 if shift >= 256
		if a[0].Cmp(big.NewInt(256)) >= 0 {
			return big.NewInt(0)
		}
		return new(big.Int).Quo(a[1], new(big.Int).Lsh(c15One, uint(a[0].Uint64())))
	case C15SAR:
		// floor(signed(value) / 2^shift); shift >= 256: 0 for value >= 0, -1 otherwise
		v := c15signed(a[1])
		if a[0].Cmp(big.NewInt(256)) >= 0 {
			if v.Sign() >= 0 {
				return big.NewInt(0)
			}
			return c15wrap(big.NewInt(-1))
		}
		d := new(big.Int).Lsh(c15One, uint(a[0].Uint64()))
		q := new(big.Int).Div(v, d) // Euclidean division with positive divisor = floor
		return c15wrap(q)
	}
	panic("C15Op: not a computational opcode")
}

// ---- second formulation -------------------------------------------------------------------

type c15word [32]byte // big endian

func c15toWord(x *big.Int) (w c15word) {
	b := x.Bytes()
	copy(w[32-len(b):], b)
	return
}

func (w c15word) big() *big.Int { return new(big.Int).SetBytes(w[:]) }

func (w c15word) bit(i uint) byte { // i = 0 is the least significant bit
	return (w[31-i/8] >> (i % 8)) & 1
}

func (w *c15word) setBit(i uint, v byte) {
	if v != 0 {
		w[31-i/8] |= 1 << (i % 8)
	} else {
		w[31-i/8] &^= 1 << (i % 8)
	}
}

func (w c15word) neg() c15word { // two's complement negation: flip all bits, add one
	var r c15word
	carry := uint16(1)
	for i := 31; i >= 0; i-- {
		s := uint16(^w[i]) + carry
		r[i] = byte(s)
		carry = s >> 8
	}
	return r
}

func (w c15word) isZero() bool { return w == c15word{} }

func (w c15word) limbs() (l [4]uint64) { // l[0] least significant
	for i := 0; i < 4; i++ {
		for j := 0; j < 8; j++ {
			l[i] |= uint64(w[31-(i*8+j)]) << (8 * uint(j))
		}
	}
	return
}

func c15fromLimbs(l [4]uint64) (w c15word) {
	for i := 0; i < 4; i++ {
		for j := 0; j < 8; j++ {
			w[31-(i*8+j)] = byte(l[i] >> (8 * uint(j)))
		}
	}
	return
}

func c15cmpWord(a, b c15word) int {
	for i := 0; i < 32; i++ {
		if a[i] != b[i] {
			if a[i] < b[i] {
				return -1
			}
			return 1
		}
	}
	return 0
}

// c15small returns (v, true) if the word is < 2^16.
func (w c15word) small() (uint, bool) {
	for i := 0; i < 30; i++ {
		if w[i] != 0 {
			return 0, false
		}
	}
	return uint(w[30])<<8 | uint(w[31]), true
}

// C15OpAlt is the second formulation; same contract as C15Op.
func C15OpAlt(op byte, a []*big.Int) *big.Int {
	var w [3]c15word
	for i := range a {
		w[i] = c15toWord(a[i])
	}
	switch op {
	case C15ADD:
		var r c15word
		carry := uint16(0)
		for i := 31; i >= 0; i-- {
			s := uint16(w[0][i]) + uint16(w[1][i]) + carry
			r[i] = byte(s)
			carry = s >> 8
		}
		return r.big()
	case C15SUB:
		// a - b = a + (-b)
		nb := w[1].neg()
		var r c15word
		carry := uint16(0)
		for i := 31; i >= 0; i-- {
			s := uint16(w[0][i]) + uint16(nb[i]) + carry
			r[i] = byte(s)
			carry = s >> 8
		}
		return r.big()
	case C15MUL:
		// schoolbook on 64-bit limbs, keeping the low four limbs
		x, y := w[0].limbs(), w[1].limbs()
		var r [4]uint64
		for i := 0; i < 4; i++ {
			var carry uint64
			for j := 0; i+j < 4; j++ {
				hi, lo := bits.Mul64(x[i], y[j])
				var c1, c2 uint64
				lo, c1 = bits.Add64(lo, r[i+j], 0)
				lo, c2 = bits.Add64(lo, carry, 0)
				r[i+j] = lo
				carry = hi + c1 + c2
			}
		}
		return c15fromLimbs(r).big()
	case C15DIV, C15MOD:
		if w[1].isZero() {
			return big.NewInt(0)
		}
		// binary long division
		q, r := c15longdiv(a[0], a[1])
		if op == C15DIV {
			return q
		}
		return r
	case C15SDIV, C15SMOD:
		if w[1].isZero() {
			return big.NewInt(0)
		}
		nx, ny := w[0].bit(255) == 1, w[1].bit(255) == 1
		ax, ay := w[0], w[1]
		if nx {
			ax = ax.neg() // |x| as an unsigned word (2^255 stays 2^255)
		}
		if ny {
			ay = ay.neg()
		}
		q, r := c15longdiv(ax.big(), ay.big())
		if op == C15SDIV {
			qw := c15toWord(q)
			if nx != ny {
				qw = qw.neg()
			}
			return qw.big()
		}
		rw := c15toWord(r)
		if nx {
			rw = rw.neg()
		}
		return rw.big()
	case C15ADDMOD:
		if w[2].isZero() {
			return big.NewInt(0)
		}
		x := new(big.Int).Mod(a[0], a[2])
		y := new(big.Int).Mod(a[1], a[2])
		x.Add(x, y)
		if x.Cmp(a[2]) >= 0 {
			x.Sub(x, a[2])
		}
		return x
	case C15MULMOD:
		if w[2].isZero() {
			return big.NewInt(0)
		}
		// double-and-add over the bits of the second factor, everything reduced modulo N
		acc := new(big.Int)
		x := new(big.Int).Mod(a[0], a[2])
		for i := 255; i >= 0; i-- {
			acc.Lsh(acc, 1)
			if acc.Cmp(a[2]) >= 0 {
				acc.Sub(acc, a[2])
			}
			if w[1].bit(uint(i)) == 1 {
				acc.Add(acc, x)
				if acc.Cmp(a[2]) >= 0 {
					acc.Sub(acc, a[2])
				}
			}
		}
		return acc
	case C15EXP:
		// left-to-right square and multiply, truncating to 256 bits after every step
		acc := big.NewInt(1)
		for i := 255; i >= 0; i-- {
			acc.Mul(acc, acc)
			acc = c15wrap(acc)
			if w[1].bit(uint(i)) == 1 {
				acc.Mul(acc, a[0])
				acc = c15wrap(acc)
			}
		}
		return acc
	case C15SIGNEXTEND:
		b, ok := w[0].small()
		if !ok || b >= 31 {
			return w[1].big()
		}
		t := 8*b + 7
		r := w[1]
		s := r.bit(t)
		for i := t + 1; i < 256; i++ {
			r.setBit(i, s)
		}
		return r.big()
	case C15LT:
		return c15bool(c15cmpWord(w[0], w[1]) < 0)
	case C15GT:
		return c15bool(c15cmpWord(w[0], w[1]) > 0)
	case C15SLT, C15SGT:
		// flipping the sign bit maps signed order onto unsigned order
		x, y := w[0], w[1]
		x[0] ^= 0x80
		y[0] ^= 0x80
		if op == C15SLT {
			return c15bool(c15cmpWord(x, y) < 0)
		}
		return c15bool(c15cmpWord(x, y) > 0)
	case C15EQ:
		return c15bool(w[0] == w[1])
	case C15ISZERO:
		return c15bool(w[0].isZero())
	case C15AND, C15OR, C15XOR:
		var r c15word
		for i := range r {
			switch op {
			case C15AND:
				r[i] = w[0][i] & w[1][i]
			case C15OR:
				r[i] = w[0][i] | w[1][i]
			default:
				r[i] = w[0][i] ^ w[1][i]
			}
		}
		return r.big()
	case C15NOT:
		var r c15word
		for i := range r {
			r[i] = ^w[0][i]
		}
		return r.big()
	case C15BYTE:
		i, ok := w[0].small()
		if !ok || i >= 32 {
			return big.NewInt(0)
		}
		return big.NewInt(int64(w[1][i]))
	case C15SHL, C15SHR, C15SAR:
		n, ok := w[0].small()
		if !ok || n > 256 {
			n = 256
		}
		fill := byte(0)
		if op == C15SAR {
			fill = w[1].bit(255)
		}
		var r c15word
		for i := uint(0); i < 256; i++ {
			var b byte
			switch op {
			case C15SHL: // result bit i = value bit i-n
				if i >= n {
					b = w[1].bit(i - n)
				}
			default: // result bit i = value bit i+n, or the fill bit
				if i+n < 256 {
					b = w[1].bit(i + n)
				} else {
					b = fill
				}
			}
			r.setBit(i, b)
		}
		return r.big()
	}
	panic("C15OpAlt: not a computational opcode")
}

// c15longdiv: restoring binary long division of non-negative integers, y > 0.
func c15longdiv(x, y *big.Int) (q, r *big.Int) {
	q, r = new(big.Int), new(big.Int)
	for i := x.BitLen() - 1; i >= 0; i-- {
		r.Lsh(r, 1)
		if x.Bit(i) == 1 {
			r.Add(r, c15One)
		}
		q.Lsh(q, 1)
		if r.Cmp(y) >= 0 {
			r.Sub(r, y)
			q.Add(q, c15One)
		}
	}
	return
}

// ---- gas table (Istanbul), typed in by hand --------------------------------------------------

const (
	c15Gzero     = 0
	c15Gbase     = 2
	c15Gverylow  = 3
	c15Glow      = 5
	c15Gmid      = 8
	c15Gexp      = 10
	c15Gexpbyte  = 50 // EIP-160
	c15Gmemory   = 3
	c15Gcopy     = 3   // per word copied by *COPY
	c15Gsha3     = 30  // KECCAK256
	c15Gsha3word = 6   // per word hashed
	c15Glog      = 375 // LOGn
	c15Glogtopic = 375 // per topic
	c15Glogdata  = 8   // per byte of log data
	c15Gsload    = 800 // EIP-1884
	// EIP-2200
	c15GsstoreSentry = 2300
	c15GsstoreNoop   = 800 // = SLOAD_GAS
	c15GsstoreInit   = 20000
	c15GsstoreClean  = 5000
)

// C15StaticGas: the constant part of the price of an opcode of the subset (EXP: without the
// per-byte part; memory opcodes: without expansion and without the per-word/per-byte part;
// SSTORE: 0, fully dynamic).
func C15StaticGas(op byte) uint64 {
	switch op {
	case C15STOP, C15RETURN, C15REVERT, C15SSTORE:
		return c15Gzero
	case C15POP, C15CALLDATASIZE, C15CODESIZE, C15RETURNDATASIZE, C15MSIZE, C15GAS:
		return c15Gbase
	case C15ADD, C15SUB, C15NOT, C15LT, C15GT, C15SLT, C15SGT, C15EQ, C15ISZERO, C15AND, C15OR, C15XOR,
		C15BYTE, C15SHL, C15SHR, C15SAR, C15MLOAD, C15MSTORE, C15MSTORE8,
		C15CALLDATALOAD, C15CALLDATACOPY, C15CODECOPY, C15RETURNDATACOPY:
		return c15Gverylow
	case C15MUL, C15DIV, C15SDIV, C15MOD, C15SMOD, C15SIGNEXTEND:
		return c15Glow
	case C15ADDMOD, C15MULMOD:
		return c15Gmid
	case C15EXP:
		return c15Gexp
	case C15SLOAD:
		return c15Gsload
	case C15SHA3:
		return c15Gsha3
	}
	if op >= C15LOG0 && op <= C15LOG4 {
		return c15Glog + c15Glogtopic*uint64(op-C15LOG0)
	}
	if (op >= C15PUSH1 && op <= C15PUSH32) || (op >= C15DUP1 && op <= C15SWAP16) {
		return c15Gverylow
	}
	panic("C15StaticGas: opcode outside the subset")
}

// C15ExpGas: 10 if the exponent is 0, else 10 + 50 * (1 + floor(log256(exponent))).
func C15ExpGas(exponent *big.Int) uint64 {
	return c15Gexp + c15Gexpbyte*uint64((exponent.BitLen()+7)/8)
}

// c15memCost: Cmem(a) = Gmemory*a + floor(a^2/512) for a words (big: offsets are arbitrary words).
func c15memCost(words *big.Int) *big.Int {
	lin := new(big.Int).Mul(words, big.NewInt(c15Gmemory))
	sq := new(big.Int).Mul(words, words)
	sq.Quo(sq, big.NewInt(512))
	return lin.Add(lin, sq)
}

// C15MemCost is Cmem for a word count that fits an uint64 (exported for tests/evidence).
func C15MemCost(words uint64) uint64 {
	return c15memCost(new(big.Int).SetUint64(words)).Uint64()
}

// C15MemWords is the Yellow Paper's M(s, f, l): the number of active memory words after an access
// of l bytes at offset f when s words were active before: s if l = 0, else max(s, ceil((f+l)/32)).
func C15MemWords(s uint64, f, l *big.Int) *big.Int {
	cur := new(big.Int).SetUint64(s)
	if l.Sign() == 0 {
		return cur
	}
	end := new(big.Int).Add(f, l)
	end.Add(end, big.NewInt(31))
	end.Quo(end, big.NewInt(32))
	if end.Cmp(cur) <= 0 {
		return cur
	}
	return end
}

// c15words: ceil(n/32).
func c15words(n *big.Int) *big.Int {
	w := new(big.Int).Add(n, big.NewInt(31))
	return w.Quo(w, big.NewInt(32))
}

// ---- interpreter -----------------------------------------------------------------------------

// C15Log is one LOGn record.
type C15Log struct {
	Topics [][32]byte
	Data   []byte
}

// C15Out is what the reference observed.
type C15Out struct {
	Err      string     // "" (normal halt or REVERT) | out-of-gas | stack-underflow | stack-overflow | invalid-opcode | returndata-out-of-bounds
	ErrPC    int        // pc of the failing instruction
	Reverted bool       // halted by REVERT: Ret is the revert data, GasUsed what was really consumed
	Ret      []byte     // output of RETURN / REVERT
	GasUsed  uint64     // gas consumed (all of it when Err != "")
	Stack    []*big.Int // final stack, bottom first
	Mem      []byte     // final memory (multiple of 32 bytes)
	Storage  map[[32]byte][32]byte
	Logs     []C15Log // LOGn records in order (to be dropped by the caller when Err != "" or Reverted)
	OpCount  [256]int // executed instructions by opcode
	Steps    int
	Storage0 bool // any SLOAD/SSTORE executed
	MemReads int  // MLOADs
	SLoads   int
	// events of interest to the evidence
	DivByZero, ShiftGE256, SignedNeg, ExpBytes int
	// MemEv: what kind of memory accesses were executed (charged and performed), by situation and
	// opcode group; see c15memEvent.
	MemEv C15MemEvents
}

// C15MemGroups: the memory-touching opcode groups (lower case, used in counter names).
var C15MemGroups = []string{"mload", "mstore", "mstore8", "calldatacopy", "codecopy", "returndatacopy", "sha3", "log", "return", "revert"}

// C15MemGroupIndex: index into C15MemGroups of a memory-touching opcode, -1 for any other.
func C15MemGroupIndex(op byte) int {
	switch {
	case op == C15MLOAD:
		return 0
	case op == C15MSTORE:
		return 1
	case op == C15MSTORE8:
		return 2
	case op == C15CALLDATACOPY:
		return 3
	case op == C15CODECOPY:
		return 4
	case op == C15RETURNDATACOPY:
		return 5
	case op == C15SHA3:
		return 6
	case op >= C15LOG0 && op <= C15LOG4:
		return 7
	case op == C15RETURN:
		return 8
	case op == C15REVERT:
		return 9
	}
	return -1
}

// Situations of an executed memory access (relative to the memory active before it).
const (
	C15SitZeroLength             = iota
	C15SitZeroLengthAtHugeOffset // length 0, offset >= 2^32
	C15SitZeroLengthBeyondEnd    // length 0, end of active memory < offset < 2^32
	C15SitFreshMemory            // nothing active before
	C15SitUnaligned              // offset mod 32 != 0
	C15SitOffsetOneBeforeBoundary
	C15SitCrossesBoundaryByOne // the last byte touched is the first byte of a word
	C15SitUnalignedEndingOnBoundary
	C15SitExpands
	C15SitExpandsByOneWord
	C15SitExpansionQuadratic // floor(words^2/512) changed
	C15SitStartsExactlyAtEnd // expanding, offset = active size
	C15SitStartsBeyondEnd    // expanding, offset > active size
	C15SitStraddlesEnd       // expanding, starts inside the active memory
	C15SitEndsExactlyAtEnd   // not expanding, last byte touched = last active byte
	C15SitInLastActiveWord   // not expanding, last byte touched lies in the last active word
	C15SitExpandedFurther    // not expanding, at least one whole active word behind the access
	c15NSit
)

// C15MemSits names the situations (used in counter names).
var C15MemSits = [c15NSit]string{"zero_length", "zero_length_at_huge_offset", "zero_length_beyond_end", "fresh_memory", "unaligned",
	"offset_one_byte_before_word_boundary", "crosses_word_boundary_by_one_byte", "unaligned_ending_on_word_boundary", "expands",
	"expands_by_exactly_one_word", "expansion_with_quadratic_term", "starts_exactly_at_end", "starts_beyond_end", "straddles_end",
	"ends_exactly_at_end", "in_last_active_word", "memory_already_expanded_further"}

// C15MemEvents counts executed (charged and performed) memory accesses by situation and group.
type C15MemEvents [c15NSit][10]int

var c15Two32 = new(big.Int).Lsh(big.NewInt(1), 32)

// c15memEvent classifies one executed memory access of size bytes at off when cur bytes were
// active (cur is a multiple of 32) and newWords words are active afterwards.
func (o *C15Out) c15memEvent(op byte, off, size *big.Int, cur int, newWords *big.Int) {
	g := C15MemGroupIndex(op)
	if g < 0 {
		return
	}
	ev := func(sit int) { o.MemEv[sit][g]++ }
	if size.Sign() == 0 {
		ev(C15SitZeroLength)
		switch {
		case off.Cmp(c15Two32) >= 0:
			ev(C15SitZeroLengthAtHugeOffset)
		case off.Cmp(big.NewInt(int64(cur))) > 0:
			ev(C15SitZeroLengthBeyondEnd)
		}
		return
	}
	// size > 0 and the access was paid for: off and size are small
	f, l := int(off.Int64()), int(size.Int64())
	end := f + l
	nw := int(newWords.Int64()) * 32
	if cur == 0 {
		ev(C15SitFreshMemory)
	}
	if f%32 != 0 {
		ev(C15SitUnaligned)
	}
	if f%32 == 31 {
		ev(C15SitOffsetOneBeforeBoundary)
	}
	if end%32 == 1 {
		ev(C15SitCrossesBoundaryByOne)
	}
	if end%32 == 0 && f%32 != 0 {
		ev(C15SitUnalignedEndingOnBoundary)
	}
	switch {
	case nw > cur: // expansion
		ev(C15SitExpands)
		if nw-cur == 32 {
			ev(C15SitExpandsByOneWord)
		}
		if C15MemCost(uint64(nw/32))-3*uint64(nw/32) != C15MemCost(uint64(cur/32))-3*uint64(cur/32) {
			ev(C15SitExpansionQuadratic)
		}
		switch {
		case cur > 0 && f == cur:
			ev(C15SitStartsExactlyAtEnd)
		case cur > 0 && f > cur:
			ev(C15SitStartsBeyondEnd)
		case cur > 0 && f < cur:
			ev(C15SitStraddlesEnd)
		}
	case end == cur:
		ev(C15SitEndsExactlyAtEnd)
		ev(C15SitInLastActiveWord)
	case end > cur-32:
		ev(C15SitInLastActiveWord)
	default:
		ev(C15SitExpandedFurther)
	}
}

// C15Exec runs code without call data; see C15ExecIn.
func C15Exec(code []byte, gas uint64, storage map[[32]byte][32]byte) *C15Out {
	return C15ExecIn(code, nil, gas, storage)
}

// C15ExecIn runs code with the given call data and gas. storage is the pre-state of the executing
// account (not modified; original values for EIP-2200 are taken to be zero for every slot, i.e.
// the account has no committed storage). 1024 is the stack limit. The program is the outermost
// frame and makes no calls: the return data buffer (EIP-211) is always empty.
//
// Active memory follows the Yellow Paper exactly: µi (words) only grows, by M(µi, f, l) for every
// memory access, l = 0 never grows it whatever f is; every instruction is charged
// Cmem(µi') - Cmem(µi) on top of its own price; MSIZE is 32*µi.
func C15ExecIn(code, input []byte, gas uint64, storage map[[32]byte][32]byte) *C15Out {
	o := &C15Out{Storage: map[[32]byte][32]byte{}}
	for k, v := range storage {
		o.Storage[k] = v
	}
	var (
		st      []*big.Int
		mem     []byte
		gasLeft = gas
		pc      = 0
	)
	fail := func(e string) *C15Out {
		o.Err, o.ErrPC, o.GasUsed, o.Stack, o.Mem = e, pc, gas, st, mem
		return o
	}
	// charge returns false on out-of-gas
	charge := func(c *big.Int) bool {
		if !c.IsUint64() || c.Uint64() > gasLeft {
			return false
		}
		gasLeft -= c.Uint64()
		return true
	}
	// expansion cost for touching [off, off+size) and the new word count
	expand := func(off, size *big.Int) (*big.Int, *big.Int) {
		cur := uint64(len(mem) / 32)
		words := C15MemWords(cur, off, size)
		if words.IsUint64() && words.Uint64() == cur {
			return new(big.Int), words
		}
		return new(big.Int).Sub(c15memCost(words), c15memCost(new(big.Int).SetUint64(cur))), words
	}
	grow := func(words *big.Int) {
		n := int(words.Int64()) * 32
		if n > len(mem) {
			mem = append(mem, make([]byte, n-len(mem))...)
		}
	}
	// slice of memory; size 0 reads nothing whatever the offset is
	mslice := func(off, size *big.Int) []byte {
		if size.Sign() == 0 {
			return nil
		}
		f, l := int(off.Int64()), int(size.Int64())
		return mem[f : f+l]
	}
	// bytes [off, off+size) of data, zero beyond its end (size already paid for, hence small)
	padded := func(data []byte, off, size *big.Int) []byte {
		out := make([]byte, int(size.Int64()))
		if off.IsUint64() && off.Uint64() < uint64(len(data)) {
			copy(out, data[off.Uint64():])
		}
		return out
	}
	for {
		if pc >= len(code) {
			break // implicit STOP
		}
		op := code[pc]
		o.OpCount[op]++
		o.Steps++
		var pops, pushes int
		switch {
		case op == C15STOP:
		case c15arity[op] > 0:
			pops, pushes = int(c15arity[op]), 1
		case op == C15POP:
			pops = 1
		case op == C15MLOAD, op == C15SLOAD, op == C15CALLDATALOAD:
			pops, pushes = 1, 1
		case op == C15MSTORE, op == C15MSTORE8, op == C15SSTORE, op == C15RETURN, op == C15REVERT:
			pops = 2
		case op == C15SHA3:
			pops, pushes = 2, 1
		case op == C15CALLDATACOPY, op == C15CODECOPY, op == C15RETURNDATACOPY:
			pops = 3
		case op == C15CALLDATASIZE, op == C15CODESIZE, op == C15RETURNDATASIZE, op == C15MSIZE, op == C15GAS:
			pushes = 1
		case op >= C15LOG0 && op <= C15LOG4:
			pops = 2 + int(op-C15LOG0)
		case op >= C15PUSH1 && op <= C15PUSH32:
			pushes = 1
		case op >= C15DUP1 && op <= C15DUP16:
			pops, pushes = int(op-C15DUP1)+1, int(op-C15DUP1)+2
		case op >= C15SWAP1 && op <= C15SWAP16:
			pops, pushes = int(op-C15SWAP1)+2, int(op-C15SWAP1)+2
		default:
			return fail("invalid-opcode")
		}
		if len(st) < pops {
			return fail("stack-underflow")
		}
		if len(st)-pops+pushes > 1024 {
			return fail("stack-overflow")
		}
		top := func(i int) *big.Int { return st[len(st)-1-i] }
		// price: static part plus (for EXP, memory and SSTORE) the dynamic part
		static := C15StaticGas(op)
		var dyn, newWords *big.Int
		var mOff, mSize *big.Int // the memory access of this instruction, if any
		switch {
		case op == C15EXP:
			static = C15ExpGas(top(1))
		case op == C15MLOAD, op == C15MSTORE:
			mOff, mSize = top(0), big.NewInt(32)
		case op == C15MSTORE8:
			mOff, mSize = top(0), big.NewInt(1)
		case op == C15RETURN, op == C15REVERT, op == C15SHA3, op >= C15LOG0 && op <= C15LOG4:
			mOff, mSize = top(0), top(1)
		case op == C15CALLDATACOPY, op == C15CODECOPY, op == C15RETURNDATACOPY:
			mOff, mSize = top(0), top(2)
		case op == C15SSTORE:
			if gasLeft <= c15GsstoreSentry {
				return fail("out-of-gas")
			}
			var k, v [32]byte = c15toWord(top(0)), c15toWord(top(1))
			cur := o.Storage[k]
			switch {
			case cur == v:
				static = c15GsstoreNoop
			case cur == [32]byte{}: // original (0) == current
				static = c15GsstoreInit
			default: // dirty slot (original 0 != current)
				static = c15GsstoreNoop
			}
		}
		if mOff != nil {
			dyn, newWords = expand(mOff, mSize)
			switch {
			case op == C15SHA3:
				dyn.Add(dyn, new(big.Int).Mul(c15words(mSize), big.NewInt(c15Gsha3word)))
			case op == C15CALLDATACOPY, op == C15CODECOPY, op == C15RETURNDATACOPY:
				dyn.Add(dyn, new(big.Int).Mul(c15words(mSize), big.NewInt(c15Gcopy)))
			case op >= C15LOG0 && op <= C15LOG4:
				dyn.Add(dyn, new(big.Int).Mul(mSize, big.NewInt(c15Glogdata)))
			}
		}
		if dyn == nil {
			if static > gasLeft {
				return fail("out-of-gas")
			}
			gasLeft -= static
		} else if !charge(dyn.Add(dyn, new(big.Int).SetUint64(static))) {
			return fail("out-of-gas")
		}
		if op == C15RETURNDATACOPY {
			// EIP-211: reading beyond the (here: empty) return data buffer is an exceptional halt
			if new(big.Int).Add(top(1), top(2)).Sign() != 0 {
				return fail("returndata-out-of-bounds")
			}
		}
		if newWords != nil {
			o.c15memEvent(op, mOff, mSize, len(mem), newWords)
			grow(newWords)
		}
		// execute
		switch {
		case op == C15STOP:
			o.GasUsed, o.Stack, o.Mem = gas-gasLeft, st, mem
			return o
		case c15arity[op] > 0:
			n := int(c15arity[op])
			args := make([]*big.Int, n)
			for i := 0; i < n; i++ {
				args[i] = top(i)
			}
			switch op {
			case C15DIV, C15SDIV, C15MOD, C15SMOD:
				if args[1].Sign() == 0 {
					o.DivByZero++
				}
				if (op == C15SDIV || op == C15SMOD) && (args[0].Cmp(c15Two255) >= 0 || args[1].Cmp(c15Two255) >= 0) {
					o.SignedNeg++
				}
			case C15ADDMOD, C15MULMOD:
				if args[2].Sign() == 0 {
					o.DivByZero++
				}
			case C15SHL, C15SHR, C15SAR:
				if args[0].Cmp(big.NewInt(256)) >= 0 {
					o.ShiftGE256++
				}
				if op == C15SAR && args[1].Cmp(c15Two255) >= 0 {
					o.SignedNeg++
				}
			case C15SLT, C15SGT:
				if args[0].Cmp(c15Two255) >= 0 || args[1].Cmp(c15Two255) >= 0 {
					o.SignedNeg++
				}
			case C15EXP:
				o.ExpBytes += (args[1].BitLen() + 7) / 8
			}
			r := C15Op(op, args)
			st = append(st[:len(st)-n], r)
		case op == C15POP:
			st = st[:len(st)-1]
		case op == C15MLOAD:
			off := int(top(0).Int64())
			st[len(st)-1] = new(big.Int).SetBytes(mem[off : off+32])
			o.MemReads++
		case op == C15MSTORE:
			off := int(top(0).Int64())
			w := c15toWord(top(1))
			copy(mem[off:off+32], w[:])
			st = st[:len(st)-2]
		case op == C15MSTORE8:
			off := int(top(0).Int64())
			w := c15toWord(top(1))
			mem[off] = w[31]
			st = st[:len(st)-2]
		case op == C15SLOAD:
			v := o.Storage[c15toWord(top(0))]
			st[len(st)-1] = new(big.Int).SetBytes(v[:])
			o.Storage0 = true
			o.SLoads++
		case op == C15SSTORE:
			k, v := c15toWord(top(0)), c15toWord(top(1))
			if v == [32]byte{} {
				delete(o.Storage, k)
			} else {
				o.Storage[k] = v
			}
			o.Storage0 = true
			st = st[:len(st)-2]
		case op == C15SHA3:
			h := C15Keccak256(mslice(top(0), top(1)))
			st = append(st[:len(st)-2], new(big.Int).SetBytes(h[:]))
			o.MemReads++
		case op == C15CALLDATALOAD:
			st[len(st)-1] = new(big.Int).SetBytes(padded(input, top(0), big.NewInt(32)))
		case op == C15CALLDATASIZE:
			st = append(st, big.NewInt(int64(len(input))))
		case op == C15CODESIZE:
			st = append(st, big.NewInt(int64(len(code))))
		case op == C15RETURNDATASIZE:
			st = append(st, big.NewInt(0))
		case op == C15CALLDATACOPY, op == C15CODECOPY:
			src := input
			if op == C15CODECOPY {
				src = code
			}
			if top(2).Sign() != 0 {
				copy(mslice(top(0), top(2)), padded(src, top(1), top(2)))
			}
			st = st[:len(st)-3]
		case op == C15RETURNDATACOPY: // nothing to copy: offset 0, length 0 of an empty buffer
			st = st[:len(st)-3]
		case op == C15MSIZE:
			st = append(st, big.NewInt(int64(len(mem))))
		case op == C15GAS: // the gas available after paying for this instruction
			st = append(st, new(big.Int).SetUint64(gasLeft))
		case op >= C15LOG0 && op <= C15LOG4:
			n := int(op - C15LOG0)
			l := C15Log{Data: append([]byte{}, mslice(top(0), top(1))...)}
			for i := 0; i < n; i++ {
				l.Topics = append(l.Topics, c15toWord(top(2+i)))
			}
			o.Logs = append(o.Logs, l)
			o.MemReads++
			st = st[:len(st)-2-n]
		case op == C15RETURN, op == C15REVERT:
			o.Ret = append([]byte{}, mslice(top(0), top(1))...)
			if len(o.Ret) == 0 {
				o.Ret = nil
			}
			st = st[:len(st)-2]
			o.Reverted = op == C15REVERT
			o.GasUsed, o.Stack, o.Mem = gas-gasLeft, st, mem
			return o
		case op >= C15PUSH1 && op <= C15PUSH32:
			n := int(op-C15PUSH1) + 1
			imm := make([]byte, n) // bytes beyond the end of the code read as zero
			if pc+1 < len(code) {
				copy(imm, code[pc+1:])
			}
			st = append(st, new(big.Int).SetBytes(imm))
			pc += n
		case op >= C15DUP1 && op <= C15DUP16:
			st = append(st, top(int(op-C15DUP1)))
		case op >= C15SWAP1 && op <= C15SWAP16:
			n := int(op-C15SWAP1) + 1
			a, b := len(st)-1, len(st)-1-n
			st[a], st[b] = st[b], st[a]
		}
		pc++
	}
	o.GasUsed, o.Stack, o.Mem = gas-gasLeft, st, mem
	return o
}
