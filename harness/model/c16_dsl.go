package model

// C16: frame-tree DSL. A program is a set of host contracts plus a sequence of transactions; every
// transaction is a tree of call frames. Each frame is a straight-line list of actions (SSTORE, LOG,
// child invocation with a result policy) followed by a terminator. The DSL is compiled to EVM
// bytecode (c16_compile.go) and, independently, interpreted by a reference semantics written from
// the Yellow Paper / EIP-7,-140,-211,-214,-1014 (c16_sim.go) that never looks at the interpreter.

import (
	"fmt"
	"strings"
)

type C16Addr [20]byte
type C16Word [32]byte

func (a C16Addr) Hex() string { return fmt.Sprintf("%x", a[:]) }

func C16WordOf(v uint64) (w C16Word) {
	for i := 0; i < 8; i++ {
		w[31-i] = byte(v >> (8 * uint(i)))
	}
	return
}

func C16WordOfAddr(a C16Addr) (w C16Word) {
	copy(w[12:], a[:])
	return
}

// invocation kinds
const (
	C16KCall = iota
	C16KCallCode
	C16KDelegate
	C16KStatic
	C16KCreate
	C16KCreate2
)

var C16KindNames = []string{"CALL", "CALLCODE", "DELEGATECALL", "STATICCALL", "CREATE", "CREATE2"}

// terminators
const (
	C16TStop = iota
	C16TReturn
	C16TRevert
	C16TInvalid
	C16TBomb      // MLOAD at offset 2^256-1: unaffordable, halts exceptionally
	C16TUnderflow // POP on the empty stack
	C16TBadJump   // JUMP to offset 0, which is never a JUMPDEST
	C16TSelfdestruct
)

var C16TermNames = []string{"STOP", "RETURN", "REVERT", "INVALID", "OOG-BOMB", "UNDERFLOW", "BADJUMP", "SELFDESTRUCT"}

// C16TermFails: the terminator is an error or revert.
func C16TermFails(t int) bool { return t >= C16TRevert && t <= C16TBadJump }

// result policies
const (
	C16PIgnore = iota
	C16PRecord
	C16PRequireOK
	C16PRequireFail
)

var C16PolicyNames = []string{"ignore", "record", "require-ok", "require-fail"}

// gas allotment modes
const (
	C16GAll   = iota // GAS: everything the rules let through
	C16GShift        // GAS >> Shift
	C16GConst        // explicit constant
)

// action kinds
const (
	C16ASstore = iota
	C16ALog
	C16AInvoke
)

// invocation target kinds
const (
	C16TgtNode      = iota // a frame node: a section of a host's code (call kinds) or init code (create kinds)
	C16TgtPlain            // a literal address called without calldata
	C16TgtCreated          // the address returned by the Ref'th create of the same frame (kept in memory)
	C16TgtCreate2Of        // the CREATE2 address of frame Of (created by Creator), called without calldata
	C16TgtSelf             // the executing account itself (ADDRESS), called without calldata
)

// C16PrecompileIndex: 1..8 for the native contracts 0x01..0x08 (ecrecover, sha256, ripemd160, identity,
// modexp, bn256Add, bn256ScalarMul, bn256Pairing), 0 for every other address.
func C16PrecompileIndex(a C16Addr) int {
	for i := 0; i < 19; i++ {
		if a[i] != 0 {
			return 0
		}
	}
	if a[19] >= 1 && a[19] <= 8 {
		return int(a[19])
	}
	return 0
}

func C16PrecompileAddr(n int) C16Addr { return C16Addr{19: byte(n)} }

var C16PrecompileNames = []string{"", "ecrecover", "sha256", "ripemd160", "identity", "modexp", "bn256Add", "bn256ScalarMul", "bn256Pairing"}

type C16Inv struct {
	Kind     int       `json:"kind"`
	Tgt      int       `json:"tgt"`
	Node     *C16Frame `json:"node,omitempty"`
	Addr     C16Addr   `json:"-"`
	AddrHex  string    `json:"addr,omitempty"`
	Ref      int       `json:"ref,omitempty"`
	Of       *C16Frame `json:"-"`
	OfID     int       `json:"of,omitempty"`
	Creator  C16Addr   `json:"-"`
	Value    uint64    `json:"value,omitempty"`
	GasMode  int       `json:"gasmode"`
	Shift    uint      `json:"shift,omitempty"`
	GasConst uint64    `json:"gasconst,omitempty"`
	Policy   int       `json:"policy"`
	RecSlot  uint64    `json:"recslot,omitempty"`
	Salt     uint64    `json:"salt,omitempty"`

	// literal targets (plain, self) only: the call data is the first InSize bytes of the frame's
	// input staging area, into which Input has been copied just before (what earlier calls of the same
	// frame execution left behind stays; beyond that the area is zero)
	Input  []byte `json:"-"`
	InSize int    `json:"insize,omitempty"`
	// OutRec: the first 32 bytes of the output (zero-padded) go to storage slot OutSlot and
	// RETURNDATASIZE+1 to OutSlot+1, after the result policy has been applied
	OutRec  bool   `json:"outrec,omitempty"`
	OutSlot uint64 `json:"outslot,omitempty"`
}

type C16Action struct {
	Kind    int     `json:"a"`
	Slot    uint64  `json:"slot,omitempty"`
	Val     uint64  `json:"val,omitempty"`
	NTopics int     `json:"topics,omitempty"`
	DataLen int     `json:"dlen,omitempty"`
	Tag     uint64  `json:"tag,omitempty"`
	Inv     *C16Inv `json:"inv,omitempty"`
}

// runtime code deployed by a create frame that ends in RETURN
const (
	C16StubStore  = iota // SSTORE(Slot, Val); STOP
	C16StubKill          // SELFDESTRUCT(Benef)
	C16StubLog           // LOG0(32 bytes of Val); STOP
	C16StubRevert        // SSTORE(Slot, Val); REVERT
	C16StubZeros         // Size zero bytes (STOPs): at most C16MaxCodeSize may be deposited (EIP-170)
)

const C16MaxCodeSize = 24576

var C16StubNames = []string{"store", "kill", "log", "store-revert", "zeros"}

type C16Stub struct {
	Kind  int     `json:"kind"`
	Size  int     `json:"size,omitempty"`
	Slot  uint64  `json:"slot,omitempty"`
	Val   uint64  `json:"val,omitempty"`
	Benef C16Addr `json:"-"`
}

type C16Frame struct {
	ID      int         `json:"id"`
	Host    int         `json:"host"` // call kinds: the host whose code holds this node's section
	Actions []C16Action `json:"actions,omitempty"`
	Term    int         `json:"term"`
	Benef   C16Addr     `json:"-"`
	Stub    *C16Stub    `json:"stub,omitempty"`
	Doomed  bool        `json:"doomed,omitempty"` // inside a subtree whose root's terminator fails: gas may be anything
	// Tight: the frame runs on gas that was sized by dry runs of the implementation (see C16Calib), not
	// on provably ample gas; the reference trusts that it reaches its terminator
	Tight bool `json:"tight,omitempty"`

	// filled by the compiler
	InitCode []byte `json:"-"` // create kinds
	Dest     int    `json:"-"` // call kinds: JUMPDEST offset in the host code
	CallPCs  []int  `json:"-"`
}

// C16Calib: the transaction contains ONE creation frame (Boundary: the transaction's root if it is a
// creation, else a CREATE/CREATE2 child of the Tight frame P) whose gas is placed at the boundary
// "constructor paid, code deposit (200 gas per byte of returned code) just (not) paid". The knob is the
// transaction's gas (P is the root, or the root is the creation) or the explicit gas constant of the
// CALL that enters P (Knob). The harness finds by dry runs of the implementation the least knob value
// Threshold at which the creation succeeds and sets the knob to Threshold-Delta.
type C16Calib struct {
	Knob      *C16Inv `json:"-"`
	Choice    int     `json:"choice"` // which Delta: see C16DeltaOf
	Threshold uint64  `json:"threshold,omitempty"`
	Delta     int64   `json:"delta,omitempty"`
	Done      bool    `json:"done,omitempty"`    // the knob was set
	GaveUp    string  `json:"gave_up,omitempty"` // why not
}

// C16DeltaOf: how far below the threshold the knob is set; d = 200 * len(returned code).
func C16DeltaOf(choice int, d int64) int64 {
	switch choice {
	case 0:
		return 0 // exactly enough
	case 1:
		return -1
	case 2:
		return 1 // one gas short at the code deposit
	case 3:
		return 2
	case 4:
		return d / 2
	case 5:
		return d - 1
	}
	return d // (the constructor's last instruction is just paid)
}

const C16DeltaChoices = 7

type C16Tx struct {
	Root *C16Frame `json:"root"`
	// Boundary/BoundaryFails: the creation frame whose gas was calibrated, and the verdict: the
	// constructor completes, the code deposit is not paid, the frame fails
	Boundary      *C16Frame `json:"-"`
	BoundaryFails bool      `json:"boundary_fails,omitempty"`
	// CreatorDies: what the creation hands back does not let the frame that issued it execute another
	// instruction (go-youchain's CREATE forwards ALL gas): that frame fails with out of gas
	CreatorDies bool      `json:"creator_dies,omitempty"`
	Calib       *C16Calib `json:"calib,omitempty"`
	// Direct (Root == nil): the transaction calls a literal address (native contract, code-less or absent
	// account, a host without selector) with Value, exactly Gas and the call data Direct.CallData()
	Direct *C16Inv `json:"direct,omitempty"`
	Create bool    `json:"create,omitempty"` // top level is a contract creation with Root as init code
	Value  uint64  `json:"value,omitempty"`
	Gas    uint64  `json:"gas"`
	Repeat int     `json:"repeat_of,omitempty"` // 1+index of the earlier transaction whose tree is run again
}

type C16Program struct {
	Hosts    []C16Addr
	HostCode [][]byte // filled by the compiler
	Origin   C16Addr
	Txs      []*C16Tx
}

// ---- rendering -----------------------------------------------------------------------------------

func (p *C16Program) addrName(a C16Addr) string {
	for i, h := range p.Hosts {
		if h == a {
			return fmt.Sprintf("H%d", i)
		}
	}
	if a == p.Origin {
		return "origin"
	}
	if n := C16PrecompileIndex(a); n > 0 {
		return fmt.Sprintf("precompile-0x%02x(%s)", n, C16PrecompileNames[n])
	}
	return "0x" + strings.TrimLeft(a.Hex(), "0")
}

func ioStr(inv *C16Inv) string {
	s := ""
	if inv.InSize > 0 || len(inv.Input) > 0 {
		h := fmt.Sprintf("%x", inv.Input)
		if len(h) > 96 {
			h = h[:96] + "…"
		}
		s += fmt.Sprintf(" calldata=staging[0:%d] after copying %d bytes %s", inv.InSize, len(inv.Input), h)
	}
	if inv.OutRec {
		s += fmt.Sprintf(" output->slots %#x,%#x", inv.OutSlot, inv.OutSlot+1)
	}
	return s
}

func gasStr(inv *C16Inv) string {
	switch inv.GasMode {
	case C16GAll:
		return "gas=all"
	case C16GShift:
		return fmt.Sprintf("gas=avail>>%d", inv.Shift)
	}
	return fmt.Sprintf("gas=%d", inv.GasConst)
}

// Render prints a transaction tree, one action per line.
func (p *C16Program) Render(f *C16Frame, indent string, sb *strings.Builder, seen map[int]bool) {
	for _, a := range f.Actions {
		switch a.Kind {
		case C16ASstore:
			fmt.Fprintf(sb, "%sSSTORE[%#x] = %#x\n", indent, a.Slot, a.Val)
		case C16ALog:
			fmt.Fprintf(sb, "%sLOG%d tag=%#x dlen=%d\n", indent, a.NTopics, a.Tag, a.DataLen)
		case C16AInvoke:
			inv := a.Inv
			pol := C16PolicyNames[inv.Policy]
			if inv.Policy == C16PRecord {
				pol += fmt.Sprintf("@%#x", inv.RecSlot)
			}
			switch inv.Tgt {
			case C16TgtNode:
				n := inv.Node
				where := ""
				if inv.Kind < C16KCreate {
					where = fmt.Sprintf(" code@H%d", n.Host)
				} else if inv.Kind == C16KCreate2 {
					where = fmt.Sprintf(" salt=%d", inv.Salt)
				}
				d := ""
				if n.Doomed {
					d = " (doomed)"
				}
				if n.Tight {
					d += " (tight gas)"
				}
				fmt.Fprintf(sb, "%s%s node#%d%s value=%d %s -> %s%s {\n", indent, C16KindNames[inv.Kind], n.ID, where, inv.Value, gasStr(inv), pol, d)
				p.Render(n, indent+"  ", sb, seen)
				fmt.Fprintf(sb, "%s}\n", indent)
			case C16TgtPlain:
				fmt.Fprintf(sb, "%s%s plain %s value=%d %s%s -> %s\n", indent, C16KindNames[inv.Kind], p.addrName(inv.Addr), inv.Value, gasStr(inv), ioStr(inv), pol)
			case C16TgtSelf:
				fmt.Fprintf(sb, "%s%s self(ADDRESS) value=%d %s%s -> %s\n", indent, C16KindNames[inv.Kind], inv.Value, gasStr(inv), ioStr(inv), pol)
			case C16TgtCreated:
				fmt.Fprintf(sb, "%s%s created[%d] value=%d %s -> %s\n", indent, C16KindNames[inv.Kind], inv.Ref, inv.Value, gasStr(inv), pol)
			case C16TgtCreate2Of:
				fmt.Fprintf(sb, "%s%s create2-address-of(node#%d by %s) value=%d %s -> %s\n", indent, C16KindNames[inv.Kind], inv.Of.ID, p.addrName(inv.Creator), inv.Value, gasStr(inv), pol)
			}
		}
	}
	t := C16TermNames[f.Term]
	if f.Term == C16TSelfdestruct {
		t += " -> " + p.addrName(f.Benef)
	}
	if f.Stub != nil && f.Term == C16TReturn {
		t += fmt.Sprintf(" runtime-stub(%s slot=%#x val=%#x benef=%s size=%d)", C16StubNames[f.Stub.Kind], f.Stub.Slot, f.Stub.Val, p.addrName(f.Stub.Benef), len(C16StubCode(f.Stub)))
	}
	fmt.Fprintf(sb, "%s%s\n", indent, t)
}

// CallData of a Direct transaction: Input truncated or zero-extended to InSize bytes.
func (inv *C16Inv) CallData() []byte {
	d := make([]byte, inv.InSize)
	copy(d, inv.Input)
	return d
}

func (p *C16Program) RenderTx(i int) string {
	tx := p.Txs[i]
	var sb strings.Builder
	if tx.Direct != nil {
		rep := ""
		if tx.Repeat > 0 {
			rep = fmt.Sprintf(" (same as tx%d)", tx.Repeat-1)
		}
		fmt.Fprintf(&sb, "tx%d: origin CALL %s directly, value=%d gas=%d calldata(%d bytes)=%x%s\n", i, p.addrName(tx.Direct.Addr), tx.Value, tx.Gas, tx.Direct.InSize, tx.Direct.CallData(), rep)
		return sb.String()
	}
	kind := fmt.Sprintf("CALL H%d", tx.Root.Host)
	if tx.Create {
		kind = "CREATE"
	}
	rep := ""
	if tx.Repeat > 0 {
		rep = fmt.Sprintf(" (same tree as tx%d)", tx.Repeat-1)
	}
	if c := tx.Calib; c != nil && c.Done {
		rep += fmt.Sprintf(" [gas calibrated: creation node#%d succeeds from knob value %d on, knob set to %d (delta %d): code deposit fails=%v, creator out of gas right after=%v]", tx.Boundary.ID, c.Threshold, int64(c.Threshold)-c.Delta, c.Delta, tx.BoundaryFails, tx.CreatorDies)
	}
	fmt.Fprintf(&sb, "tx%d: origin %s node#%d value=%d gas=%d%s {\n", i, kind, tx.Root.ID, tx.Value, tx.Gas, rep)
	p.Render(tx.Root, "  ", &sb, map[int]bool{})
	sb.WriteString("}\n")
	return sb.String()
}
