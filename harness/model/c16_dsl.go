package model

// C16: frame-tree DSL. A program is a set of host contracts plus a sequence of transactions; every
// transaction is a tree of call frames. Each frame is a straight-line list of actions (SSTORE, LOG,
// child invocation with a result policy) followed by a terminator. The DSL is compiled to EVM
// bytecode (c16_compile.go) and, independently, interpreted by a reference semantics written from
// the Yellow Paper / EIP-7,-140,-211,-214,-1014 (c16_sim.go) that never looks at the interpreter.

import (
	"fmt"
	"strings"
)

type C16Addr [20]byte
type C16Word [32]byte

func (a C16Addr) Hex() string { return fmt.Sprintf("%x", a[:]) }

func C16WordOf(v uint64) (w C16Word) {
	for i := 0; i < 8; i++ {
		w[31-i] = byte(v >> (8 * uint(i)))
	}
	return
}

func C16WordOfAddr(a C16Addr) (w C16Word) {
	copy(w[12:], a[:])
	return
}

// invocation kinds
const (
	C16KCall = iota
	C16KCallCode
	C16KDelegate
	C16KStatic
	C16KCreate
	C16KCreate2
)

var C16KindNames = []string{"CALL", "CALLCODE", "DELEGATECALL", "STATICCALL", "CREATE", "CREATE2"}

// terminators
const (
	C16TStop = iota
	C16TReturn
	C16TRevert
	C16TInvalid
	C16TBomb      // MLOAD at offset 2^256-1: unaffordable, halts exceptionally
	C16TUnderflow // POP on the empty stack
	C16TBadJump   // JUMP to offset 0, which is never a JUMPDEST
	C16TSelfdestruct
)

var C16TermNames = []string{"STOP", "RETURN", "REVERT", "INVALID", "OOG-BOMB", "UNDERFLOW", "BADJUMP", "SELFDESTRUCT"}

// C16TermFails: the terminator is an error or revert.
func C16TermFails(t int) bool { return t >= C16TRevert && t <= C16TBadJump }

// result policies
const (
	C16PIgnore = iota
	C16PRecord
	C16PRequireOK
	C16PRequireFail
)

var C16PolicyNames = []string{"ignore", "record", "require-ok", "require-fail"}

// gas allotment modes
const (
	C16GAll   = iota // GAS: everything the rules let through
	C16GShift        // GAS >> Shift
	C16GConst        // explicit constant
)

// action kinds
const (
	C16ASstore = iota
	C16ALog
	C16AInvoke
)

// invocation target kinds
const (
	C16TgtNode      = iota // a frame node: a section of a host's code (call kinds) or init code (create kinds)
	C16TgtPlain            // a literal address called without calldata
	C16TgtCreated          // the address returned by the Ref'th create of the same frame (kept in memory)
	C16TgtCreate2Of        // the CREATE2 address of frame Of (created by Creator), called without calldata
)

type C16Inv struct {
	Kind     int       `json:"kind"`
	Tgt      int       `json:"tgt"`
	Node     *C16Frame `json:"node,omitempty"`
	Addr     C16Addr   `json:"-"`
	AddrHex  string    `json:"addr,omitempty"`
	Ref      int       `json:"ref,omitempty"`
	Of       *C16Frame `json:"-"`
	OfID     int       `json:"of,omitempty"`
	Creator  C16Addr   `json:"-"`
	Value    uint64    `json:"value,omitempty"`
	GasMode  int       `json:"gasmode"`
	Shift    uint      `json:"shift,omitempty"`
	GasConst uint64    `json:"gasconst,omitempty"`
	Policy   int       `json:"policy"`
	RecSlot  uint64    `json:"recslot,omitempty"`
	Salt     uint64    `json:"salt,omitempty"`
}

type C16Action struct {
	Kind    int     `json:"a"`
	Slot    uint64  `json:"slot,omitempty"`
	Val     uint64  `json:"val,omitempty"`
	NTopics int     `json:"topics,omitempty"`
	DataLen int     `json:"dlen,omitempty"`
	Tag     uint64  `json:"tag,omitempty"`
	Inv     *C16Inv `json:"inv,omitempty"`
}

// runtime code deployed by a create frame that ends in RETURN
const (
	C16StubStore  = iota // SSTORE(Slot, Val); STOP
	C16StubKill          // SELFDESTRUCT(Benef)
	C16StubLog           // LOG0(32 bytes of Val); STOP
	C16StubRevert        // SSTORE(Slot, Val); REVERT
)

var C16StubNames = []string{"store", "kill", "log", "store-revert"}

type C16Stub struct {
	Kind  int     `json:"kind"`
	Slot  uint64  `json:"slot,omitempty"`
	Val   uint64  `json:"val,omitempty"`
	Benef C16Addr `json:"-"`
}

type C16Frame struct {
	ID      int         `json:"id"`
	Host    int         `json:"host"` // call kinds: the host whose code holds this node's section
	Actions []C16Action `json:"actions,omitempty"`
	Term    int         `json:"term"`
	Benef   C16Addr     `json:"-"`
	Stub    *C16Stub    `json:"stub,omitempty"`
	Doomed  bool        `json:"doomed,omitempty"` // inside a subtree whose root's terminator fails: gas may be anything

	// filled by the compiler
	InitCode []byte `json:"-"` // create kinds
	Dest     int    `json:"-"` // call kinds: JUMPDEST offset in the host code
	CallPCs  []int  `json:"-"`
}

type C16Tx struct {
	Root   *C16Frame `json:"root"`
	Create bool      `json:"create,omitempty"` // top level is a contract creation with Root as init code
	Value  uint64    `json:"value,omitempty"`
	Gas    uint64    `json:"gas"`
	Repeat int       `json:"repeat_of,omitempty"` // 1+index of the earlier transaction whose tree is run again
}

type C16Program struct {
	Hosts    []C16Addr
	HostCode [][]byte // filled by the compiler
	Origin   C16Addr
	Txs      []*C16Tx
}

// ---- rendering -----------------------------------------------------------------------------------

func (p *C16Program) addrName(a C16Addr) string {
	for i, h := range p.Hosts {
		if h == a {
			return fmt.Sprintf("H%d", i)
		}
	}
	if a == p.Origin {
		return "origin"
	}
	return "0x" + strings.TrimLeft(a.Hex(), "0")
}

func gasStr(inv *C16Inv) string {
	switch inv.GasMode {
	case C16GAll:
		return "gas=all"
	case C16GShift:
		return fmt.Sprintf("gas=avail>>%d", inv.Shift)
	}
	return fmt.Sprintf("gas=%d", inv.GasConst)
}

// Render prints a transaction tree, one action per line.
func (p *C16Program) Render(f *C16Frame, indent string, sb *strings.Builder, seen map[int]bool) {
	for _, a := range f.Actions {
		switch a.Kind {
		case C16ASstore:
			fmt.Fprintf(sb, "%sSSTORE[%#x] = %#x\n", indent, a.Slot, a.Val)
		case C16ALog:
			fmt.Fprintf(sb, "%sLOG%d tag=%#x dlen=%d\n", indent, a.NTopics, a.Tag, a.DataLen)
		case C16AInvoke:
			inv := a.Inv
			pol := C16PolicyNames[inv.Policy]
			if inv.Policy == C16PRecord {
				pol += fmt.Sprintf("@%#x", inv.RecSlot)
			}
			switch inv.Tgt {
			case C16TgtNode:
				n := inv.Node
				where := ""
				if inv.Kind < C16KCreate {
					where = fmt.Sprintf(" code@H%d", n.Host)
				} else if inv.Kind == C16KCreate2 {
					where = fmt.Sprintf(" salt=%d", inv.Salt)
				}
				d := ""
				if n.Doomed {
					d = " (doomed)"
				}
				fmt.Fprintf(sb, "%s%s node#%d%s value=%d %s -> %s%s {\n", indent, C16KindNames[inv.Kind], n.ID, where, inv.Value, gasStr(inv), pol, d)
				p.Render(n, indent+"  ", sb, seen)
				fmt.Fprintf(sb, "%s}\n", indent)
			case C16TgtPlain:
				fmt.Fprintf(sb, "%s%s plain %s value=%d %s -> %s\n", indent, C16KindNames[inv.Kind], p.addrName(inv.Addr), inv.Value, gasStr(inv), pol)
			case C16TgtCreated:
				fmt.Fprintf(sb, "%s%s created[%d] value=%d %s -> %s\n", indent, C16KindNames[inv.Kind], inv.Ref, inv.Value, gasStr(inv), pol)
			case C16TgtCreate2Of:
				fmt.Fprintf(sb, "%s%s create2-address-of(node#%d by %s) value=%d %s -> %s\n", indent, C16KindNames[inv.Kind], inv.Of.ID, p.addrName(inv.Creator), inv.Value, gasStr(inv), pol)
			}
		}
	}
	t := C16TermNames[f.Term]
	if f.Term == C16TSelfdestruct {
		t += " -> " + p.addrName(f.Benef)
	}
	if f.Stub != nil && f.Term == C16TReturn {
		t += fmt.Sprintf(" runtime-stub(%s slot=%#x val=%#x benef=%s)", C16StubNames[f.Stub.Kind], f.Stub.Slot, f.Stub.Val, p.addrName(f.Stub.Benef))
	}
	fmt.Fprintf(sb, "%s%s\n", indent, t)
}

func (p *C16Program) RenderTx(i int) string {
	tx := p.Txs[i]
	var sb strings.Builder
	kind := fmt.Sprintf("CALL H%d", tx.Root.Host)
	if tx.Create {
		kind = "CREATE"
	}
	rep := ""
	if tx.Repeat > 0 {
		rep = fmt.Sprintf(" (same tree as tx%d)", tx.Repeat-1)
	}
	fmt.Fprintf(&sb, "tx%d: origin %s node#%d value=%d gas=%d%s {\n", i, kind, tx.Root.ID, tx.Value, tx.Gas, rep)
	p.Render(tx.Root, "  ", &sb, map[int]bool{})
	sb.WriteString("}\n")
	return sb.String()
}
