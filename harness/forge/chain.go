package forge

import (
	"crypto/ecdsa"
	"fmt"
	"math/big"
	"math/rand"

	"verif/env"

	"github.com/youchainhq/go-youchain/bls"
	"github.com/youchainhq/go-youchain/common"
	"github.com/youchainhq/go-youchain/consensus"
	"github.com/youchainhq/go-youchain/consensus/ucon"
	"github.com/youchainhq/go-youchain/core/types"
	"github.com/youchainhq/go-youchain/crypto"
	"github.com/youchainhq/go-youchain/crypto/vrf"
	secp256k1VRF "github.com/youchainhq/go-youchain/crypto/vrf/secp256k1"
	"github.com/youchainhq/go-youchain/params"
	"github.com/youchainhq/go-youchain/youdb"
)

// Engine is the REAL ucon.Server used as a pure verifier (never started), plus a forging
// Prepare/Finish pair that produces consensus-valid headers with the validator keys of the
// harness genesis. Every verification path the BlockChain uses (VerifyHeaders, VerifySeal,
// VerifySideChainHeader, CompareBlocks, GetLookBackBlockNumber) is the production code.
type Engine struct {
	*ucon.Server
	Keys  env.Keyring
	NVals int
	R     *rand.Rand // chooses the first round index tried (makes competing blocks differ)

	vrfs map[int]vrf.PrivateKey
	plan *plan
}

type planVote struct {
	k     int
	idx   int
	votes uint32
	proof []byte
}

type plan struct {
	number   uint64
	index    uint32
	proposer int
	voters   []planVote
}

func NewEngine(keys env.Keyring, nvals int, r *rand.Rand) (*Engine, error) {
	srv, err := ucon.NewVRFServer(youdb.NewMemDatabase())
	if err != nil {
		return nil, err
	}
	return &Engine{Server: srv, Keys: keys, NVals: nvals, R: r, vrfs: map[int]vrf.PrivateKey{}}, nil
}

func (e *Engine) vrf(k int) vrf.PrivateKey {
	if v, ok := e.vrfs[k]; ok {
		return v
	}
	v, err := secp256k1VRF.NewVRFSigner(e.Keys.ValKey(k))
	if err != nil {
		panic(err)
	}
	e.vrfs[k] = v
	return v
}

// GetValMainAddress: any validator; Prepare sets the real proposer as coinbase.
func (e *Engine) GetValMainAddress() common.Address { return e.Keys.ValAddr(0) }

func lookBack(n uint64, d uint64) uint64 {
	if n > d {
		return n - d
	}
	return 0
}

// Prepare forges the proposer part of the header the way an honest network would produce it:
// it searches round indexes until some online chamber validator wins proposer seats and the
// precommit committee reaches the quorum.
func (e *Engine) Prepare(chain consensus.ChainReader, h *types.Header) error {
	n := h.Number.Uint64()
	yp, err := chain.VersionForRound(n)
	if err != nil {
		return err
	}
	cp := yp.CaravelParams
	seedHeader := chain.GetHeaderByNumber(lookBack(n, cp.SeedLookBack))
	stakeHeader := chain.GetHeaderByNumber(lookBack(n, cp.StakeLookBack))
	if seedHeader == nil || stakeHeader == nil {
		return fmt.Errorf("forge: look-back headers of %d not on the canonical chain", n)
	}
	seedCon, err := ucon.GetConsensusDataFromHeader(seedHeader)
	if err != nil {
		return err
	}
	rd, err := chain.GetVldReader(stakeHeader.ValRoot)
	if err != nil {
		return err
	}
	stat, err := rd.GetValidatorsStat()
	if err != nil {
		return err
	}
	total := stat.GetStakeByKind(params.KindChamber)
	if total.Sign() == 0 {
		return fmt.Errorf("forge: no online chamber stake")
	}
	vs := rd.GetValidators()
	type member struct {
		k     int
		idx   int
		stake *big.Int
	}
	var members []member
	for k := 0; k < e.NVals; k++ {
		v := rd.GetValidatorByMainAddr(e.Keys.ValAddr(k))
		if v == nil || !v.IsOnline() || v.Kind() != params.KindChamber {
			continue
		}
		idx, ok := vs.GetIndex(v.MainAddress())
		if !ok {
			continue
		}
		members = append(members, member{k, idx, v.Stake})
	}
	quorum := uint64(float64(cp.ValidatorThreshold) * 0.685)
	first := uint32(1)
	if e.R != nil {
		first += uint32(e.R.Intn(3))
	}
	for index := first; index < first+80; index++ {
		best := -1
		var bestCred struct {
			value common.Hash
			proof []byte
			j     uint32
			prio  common.Hash
		}
		for _, m := range members {
			v, p, j := ucon.VrfSortition(e.vrf(m.k), seedCon.Seed, index, uint32(ucon.UConStepProposal), cp.ProposerThreshold, m.stake, total)
			if j < 1 {
				continue
			}
			prio := ucon.VrfComputePriority(v, j)
			if best < 0 || ucon.CompareCommonHash(prio, bestCred.prio) > 0 {
				best = m.k
				bestCred.value, bestCred.proof, bestCred.j, bestCred.prio = v, p, j, prio
			}
		}
		if best < 0 {
			continue
		}
		var voters []planVote
		sum := uint64(0)
		for _, m := range members {
			_, p, j := ucon.VrfSortition(e.vrf(m.k), seedCon.Seed, index, uint32(ucon.Precommit), cp.ValidatorThreshold, m.stake, total)
			if j < 1 {
				continue
			}
			voters = append(voters, planVote{m.k, m.idx, j, p})
			sum += uint64(j)
		}
		if sum < quorum {
			continue
		}
		var newSeed common.Hash
		copy(newSeed[:], crypto.Keccak256(seedCon.Seed[:], h.ParentHash[:], []byte{byte(index)}))
		cd := &ucon.BlockConsensusData{
			Round: new(big.Int).Set(h.Number), RoundIndex: index, Seed: newSeed, SortitionProof: bestCred.proof, Priority: bestCred.prio, SubUsers: bestCred.j,
			ProposerThreshold: cp.ProposerThreshold, ValidatorThreshold: cp.ValidatorThreshold, CertValThreshold: cp.CertValThreshold,
		}
		if err := cd.SetSignature(e.Keys.ValKey(best)); err != nil {
			return err
		}
		b, err := ucon.PrepareConsensusData(h, cd)
		if err != nil {
			return err
		}
		h.Consensus = b
		h.MixDigest = types.UConMixHash
		h.Coinbase = e.Keys.ValAddr(best)
		e.plan = &plan{number: n, index: index, proposer: best, voters: voters}
		return nil
	}
	return fmt.Errorf("forge: no round index with proposer and quorum for block %d", n)
}

// Finish attaches the precommit votes and the proposer's seal to an assembled block.
func (e *Engine) Finish(b *types.Block) (*types.Block, error) {
	return e.FinishWith(b, nil)
}

// FinishWith is Finish with an optional tampering hook applied to the header BEFORE votes and
// seal are produced (so that a state-invalid block is still consensus-valid).
func (e *Engine) FinishWith(b *types.Block, tamper func(h *types.Header)) (*types.Block, error) {
	if e.plan == nil || e.plan.number != b.NumberU64() {
		return nil, fmt.Errorf("forge: no plan for block %d", b.NumberU64())
	}
	h := b.Header()
	if tamper != nil {
		tamper(h)
	}
	hash := h.Hash()
	uc := &ucon.UconValidators{RoundIndex: e.plan.index}
	var sigs []bls.Signature
	for _, v := range e.plan.voters {
		sig := e.Keys.ValBls(v.k).Sign(VotePayload(hash, h.Number, e.plan.index))
		sigs = append(sigs, sig)
		uc.ChamberCommitters = append(uc.ChamberCommitters, ucon.SingleVote{VoterIdx: uint32(v.idx), Votes: v.votes, Signature: sig.Compress().Bytes(), Proof: v.proof})
	}
	agg, err := BlsMgr.Aggregate(sigs)
	if err != nil {
		return nil, err
	}
	uc.SCAggrSig = agg.Compress().Bytes()
	vb, err := uc.ValidatorsToByte()
	if err != nil {
		return nil, err
	}
	h.Validator = vb
	sig, err := crypto.Sign(h.Hash().Bytes(), e.Keys.ValKey(e.plan.proposer))
	if err != nil {
		return nil, err
	}
	h.Signature = sig
	return b.WithSeal(h), nil
}

// ProposerKey returns the key of the planned proposer (for tampering tests).
func (e *Engine) ProposerKey() *ecdsa.PrivateKey {
	if e.plan == nil {
		return nil
	}
	return e.Keys.ValKey(e.plan.proposer)
}
