// Package forge owns every validator key of a harness genesis and can therefore play honest and
// Byzantine validators with real cryptography. Every forged artefact carries construction-time
// ground truth, which (not the verifier) is what the C01/C03/C05 oracles are computed from.
package forge

import (
	"crypto/ecdsa"
	"fmt"
	"math/big"
	"math/rand"

	"verif/env"

	"github.com/youchainhq/go-youchain/bls"
	"github.com/youchainhq/go-youchain/common"
	"github.com/youchainhq/go-youchain/consensus/ucon"
	"github.com/youchainhq/go-youchain/core/state"
	"github.com/youchainhq/go-youchain/core/types"
	"github.com/youchainhq/go-youchain/crypto"
	"github.com/youchainhq/go-youchain/crypto/vrf"
	secp256k1VRF "github.com/youchainhq/go-youchain/crypto/vrf/secp256k1"
	"github.com/youchainhq/go-youchain/params"
	"github.com/youchainhq/go-youchain/youdb"
)

var BlsMgr = bls.NewBlsManager()

// Member is one validator of the look-back set with all its keys.
type Member struct {
	I       int // keyring index
	Key     *ecdsa.PrivateKey
	Vrf     vrf.PrivateKey
	Bls     bls.SecretKey
	Addr    common.Address
	Role    params.ValidatorRole
	Status  uint8
	Stake   *big.Int
	Idx     int // index in the look-back Validators list (VoterIdx); -1 if not a member
	Chamber bool
	Online  bool
}

// Set is a look-back validator set materialised in a real validator trie.
type Set struct {
	Keys     env.Keyring
	Members  []*Member
	DB       state.Database
	ValRoot  common.Hash
	Reader   state.ValidatorReader
	Total    *big.Int // online chamber stake (what sortition uses as total)
	Outsider *Member  // a key that is NOT in the validator set

	credCache map[string]Credential
}

// NewSet creates the validator records in a fresh state and returns the reader consensus uses.
func NewSet(keys env.Keyring, specs []env.ValSpec) (*Set, error) {
	env.Init()
	s := &Set{Keys: keys}
	disk := youdb.NewMemDatabase()
	s.DB = state.NewDatabase(disk)
	st, err := state.New(common.Hash{}, common.Hash{}, common.Hash{}, s.DB)
	if err != nil {
		return nil, err
	}
	mk := func(i int) *Member {
		k := keys.ValKey(i)
		v, err := secp256k1VRF.NewVRFSigner(k)
		if err != nil {
			panic(err)
		}
		return &Member{I: i, Key: k, Vrf: v, Bls: keys.ValBls(i), Addr: keys.ValAddr(i), Idx: -1}
	}
	for i, sp := range specs {
		m := mk(i)
		m.Role, m.Status = sp.Role, sp.Status
		m.Stake = params.YOUToStake(sp.Tokens)
		k, _ := params.KindOfRole(sp.Role)
		m.Chamber = k == params.KindChamber
		m.Online = sp.Status == params.ValidatorOnline
		op := keys.UserAddr(sp.Operator)
		if st.CreateValidator(fmt.Sprintf("v%d", i), op, op, sp.Role, keys.ValMainPub(i), keys.ValBlsPub(i), sp.Tokens, m.Stake, 0, 0, 0, sp.Status) == nil {
			return nil, fmt.Errorf("CreateValidator %d failed", i)
		}
		s.Members = append(s.Members, m)
	}
	s.Outsider = mk(len(specs) + 1000)
	_, vroot, _, err := st.Commit(true)
	if err != nil {
		return nil, err
	}
	s.ValRoot = vroot
	rd, err := state.NewVldReader(vroot, s.DB, false)
	if err != nil {
		return nil, err
	}
	s.Reader = rd
	vs := rd.GetValidators()
	for _, m := range s.Members {
		if idx, ok := vs.GetIndex(m.Addr); ok {
			m.Idx = idx
		}
	}
	stat, err := rd.GetValidatorsStat()
	if err != nil {
		return nil, err
	}
	s.Total = stat.GetStakeByKind(params.KindChamber)
	return s, nil
}

// Credential is a sortition result with its ground truth.
type Credential struct {
	M     *Member
	Value common.Hash
	Proof []byte
	J     uint32 // seats under the threshold it was computed with
}

// Sortition runs the real VRF sortition for member m.
// A validator evaluates its VRF once per (seed, index, step): the proof bytes it gossips are
// the ones everybody (an attacker replaying them included) has, so credentials are cached and
// only the seat count is recomputed for other thresholds.
func (s *Set) Sortition(m *Member, seed common.Hash, index, step uint32, threshold uint64) Credential {
	if m.Stake == nil || s.Total.Sign() == 0 {
		return Credential{M: m}
	}
	if s.credCache == nil {
		s.credCache = map[string]Credential{}
	}
	key := fmt.Sprintf("%d|%x|%d|%d|%d|%v", m.I, seed, index, step, threshold, m.Stake)
	if c, ok := s.credCache[key]; ok {
		return c
	}
	base := fmt.Sprintf("%d|%x|%d|%d", m.I, seed, index, step)
	v, p, j := ucon.VrfSortition(m.Vrf, seed, index, step, threshold, m.Stake, s.Total)
	if b, ok := s.credCache[base]; ok {
		// same VRF output (it is a function of key and message), first proof bytes kept
		if b.Value == v {
			p = b.Proof
		}
	} else {
		s.credCache[base] = Credential{M: m, Value: v, Proof: p, J: j}
	}
	c := Credential{M: m, Value: v, Proof: p, J: j}
	s.credCache[key] = c
	return c
}

// VotePayload is what a vote signs: blockHash || round || roundIndex (no vote kind).
func VotePayload(hash common.Hash, round *big.Int, index uint32) []byte {
	b := append([]byte{}, hash.Bytes()...)
	b = append(b, round.Bytes()...)
	return append(b, byte(index>>24), byte(index>>16), byte(index>>8), byte(index))
}

// Vote is a signed vote with ground truth.
type Vote struct {
	SV   ucon.SingleVote
	Sig  bls.Signature
	Cred Credential
	// ground truth
	Signer     *Member
	Hash       common.Hash // block hash actually signed
	Round      *big.Int
	Index      uint32 // round index actually signed
	Step       uint32 // step the credential was issued for
	CredSeed   common.Hash
	CredIndex  uint32
	ClaimVotes uint32
}

// SignVote makes member m's vote for hash at (round,index) with credential c.
func SignVote(m *Member, c Credential, hash common.Hash, round *big.Int, index uint32, step uint32, seed common.Hash) *Vote {
	sig := m.Bls.Sign(VotePayload(hash, round, index))
	idx := uint32(0)
	if m.Idx >= 0 {
		idx = uint32(m.Idx)
	}
	return &Vote{
		SV:  ucon.SingleVote{VoterIdx: idx, Votes: c.J, Signature: sig.Compress().Bytes(), Proof: c.Proof},
		Sig: sig, Cred: c, Signer: m, Hash: hash, Round: new(big.Int).Set(round), Index: index, Step: step,
		CredSeed: seed, CredIndex: index, ClaimVotes: c.J,
	}
}

// Aggregate aggregates the BLS signatures of votes.
func Aggregate(votes []*Vote) []byte {
	if len(votes) == 0 {
		return nil
	}
	sigs := make([]bls.Signature, len(votes))
	for i, v := range votes {
		sigs[i] = v.Sig
	}
	a, err := BlsMgr.Aggregate(sigs)
	if err != nil {
		return nil
	}
	return a.Compress().Bytes()
}

// SeedHeader is a look-back header carrying a seed.
func SeedHeader(number uint64, seed common.Hash, valRoot common.Hash, version params.YouVersion) *types.Header {
	cd := &ucon.BlockConsensusData{Round: new(big.Int).SetUint64(number), RoundIndex: 1, Seed: seed, Priority: common.Hash{}, SortitionProof: []byte{}, Signature: []byte{}}
	b, _ := ucon.PrepareConsensusData(nil, cd)
	return &types.Header{Number: new(big.Int).SetUint64(number), Consensus: b, MixDigest: types.UConMixHash, ValRoot: valRoot,
		GasRewards: new(big.Int), Subsidy: new(big.Int), CurrVersion: version, Time: 1600000000 + number}
}

// SeedHeaderCert is SeedHeader carrying the thresholds its (past) proposer declared.
func SeedHeaderCert(number uint64, seed common.Hash, valRoot common.Hash, version params.YouVersion, propTh, valTh, certTh uint64) *types.Header {
	h := SeedHeader(number, seed, valRoot, version)
	cd := &ucon.BlockConsensusData{Round: new(big.Int).SetUint64(number), RoundIndex: 1, Seed: seed, Priority: common.Hash{}, SortitionProof: []byte{}, Signature: []byte{},
		ProposerThreshold: propTh, ValidatorThreshold: valTh, CertValThreshold: certTh}
	b, _ := ucon.PrepareConsensusData(nil, cd)
	h.Consensus = b
	return h
}

// HeaderTemplate is an unsigned child of parent.
func HeaderTemplate(parent *types.Header, r *rand.Rand) *types.Header {
	h := &types.Header{
		ParentHash: parent.Hash(), Number: new(big.Int).Add(parent.Number, big.NewInt(1)), Time: parent.Time + 1,
		GasLimit: 8000000, GasRewards: new(big.Int), Subsidy: new(big.Int), MixDigest: types.UConMixHash,
		CurrVersion: parent.CurrVersion, Extra: []byte{},
	}
	r.Read(h.Root[:])
	h.ValRoot = parent.ValRoot
	return h
}

// Proposal holds the proposer part of a forged header.
type Proposal struct {
	Proposer *Member
	Cred     Credential
	Data     *ucon.BlockConsensusData
}

// Propose fills header.Consensus with proposer p's consensus data (thresholds as given).
func Propose(h *types.Header, p *Member, cred Credential, index uint32, newSeed common.Hash, propTh, valTh, certTh uint64, claimJ uint32, prio common.Hash, signer *ecdsa.PrivateKey) (*Proposal, error) {
	cd := &ucon.BlockConsensusData{
		Round: new(big.Int).Set(h.Number), RoundIndex: index, Seed: newSeed, SortitionProof: cred.Proof, Priority: prio, SubUsers: claimJ,
		ProposerThreshold: propTh, ValidatorThreshold: valTh, CertValThreshold: certTh,
	}
	if err := cd.SetSignature(signer); err != nil {
		return nil, err
	}
	b, err := ucon.PrepareConsensusData(h, cd)
	if err != nil {
		return nil, err
	}
	h.Consensus = b
	return &Proposal{Proposer: p, Cred: cred, Data: cd}, nil
}

// AttachVotes sets header.Validator from votes (container round index idx, aggregate asig).
func AttachVotes(h *types.Header, idx uint32, votes []*Vote, asig []byte) error {
	uc := &ucon.UconValidators{RoundIndex: idx, SCAggrSig: asig}
	for _, v := range votes {
		uc.ChamberCommitters = append(uc.ChamberCommitters, v.SV)
	}
	b, err := uc.ValidatorsToByte()
	if err != nil {
		return err
	}
	h.Validator = b
	return nil
}

// Seal signs the header hash with key.
func Seal(h *types.Header, key *ecdsa.PrivateKey) error {
	sig, err := crypto.Sign(h.Hash().Bytes(), key)
	if err != nil {
		return err
	}
	h.Signature = sig
	return nil
}
