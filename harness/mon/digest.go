// Package mon holds monitors shared by several properties.
package mon

import (
	"bytes"
	"encoding/hex"
	"encoding/json"
	"fmt"
	"math/big"
	"sort"
	"strings"

	"github.com/youchainhq/go-youchain/common"
	"github.com/youchainhq/go-youchain/core/state"
	"github.com/youchainhq/go-youchain/crypto"
	"github.com/youchainhq/go-youchain/rlp"
	"github.com/youchainhq/go-youchain/trie"
)

// Universe is the set of names the harness has ever used on a state: the digest enumerates the
// live object through its getters over this universe (a live StateDB cannot be iterated), and the
// flushed tries through RawDump on a copy.
type Universe struct {
	Addrs []common.Address // accounts (users, contracts, delegators, coinbases…)
	Slots []common.Hash    // storage keys
	Vals  []common.Address // validator main addresses
	Txs   []common.Hash    // tx hashes used for logs
}

func (u *Universe) AddAddr(a common.Address) {
	for _, x := range u.Addrs {
		if x == a {
			return
		}
	}
	u.Addrs = append(u.Addrs, a)
}

// Digest is a flat, comparable enumeration of every observable of a state.
type Digest map[string]string

type Opts struct {
	Roots   bool // compute the three roots + trie-level dump on a Copy (does not disturb the live journal)
	Staking bool // include staking records / pending relationships (never journaled by design)
	NoLive  bool // skip the live-getter part (e.g. for a digest of flushed content only)
}

func bi(x *big.Int) string {
	if x == nil {
		return "nil"
	}
	return x.String()
}

// ValString renders every persistent field of a validator.
func ValString(v *state.Validator) string {
	if v == nil {
		return "<nil>"
	}
	d := v.Dump()
	b, _ := json.Marshal(d)
	// plus what would be written to the trie for it (the decoded fields above are a cache of it)
	enc, err := rlp.EncodeToBytes(v)
	if err != nil {
		return string(b) + " enc-error:" + err.Error()
	}
	return string(b) + " enc:" + hex.EncodeToString(crypto.Keccak256(enc)[:8]) + fmt.Sprintf(" lastActive:%d ext:%x", v.LastActive(), v.Ext.Data)
}

// Live computes the live-getter digest.
func Live(st *state.StateDB, u *Universe, o Opts) Digest {
	d := Digest{}
	for _, a := range u.Addrs {
		k := "acct/" + hex.EncodeToString(a[:4]) + "/"
		ex := st.Exist(a)
		d[k+"exist"] = fmt.Sprint(ex)
		d[k+"empty"] = fmt.Sprint(st.Empty(a))
		d[k+"balance"] = bi(st.GetBalance(a))
		d[k+"nonce"] = fmt.Sprint(st.GetNonce(a))
		d[k+"codehash"] = st.GetCodeHash(a).Hex()
		d[k+"code"] = hex.EncodeToString(st.GetCode(a))
		d[k+"codesize"] = fmt.Sprint(st.GetCodeSize(a))
		d[k+"suicided"] = fmt.Sprint(st.HasSuicided(a))
		for _, s := range u.Slots {
			if v := st.GetState(a, s); v != (common.Hash{}) {
				d[k+"slot/"+hex.EncodeToString(s[28:])] = v.Hex()
			}
			if v := st.GetCommittedState(a, s); v != (common.Hash{}) {
				d[k+"cslot/"+hex.EncodeToString(s[28:])] = v.Hex()
			}
		}
		d[k+"dlgcount"] = fmt.Sprint(st.GetCountOfDelegateTo(a))
		dtos, err := st.GetDelegationsFrom(a)
		if err != nil {
			d[k+"dlgs"] = "error: " + err.Error()
		} else {
			var parts []string
			for _, t := range dtos {
				parts = append(parts, fmt.Sprintf("%x:%s:%s", t.Validator[:4], bi(t.Token), bi(t.Stake)))
			}
			d[k+"dlgs"] = strings.Join(parts, ",")
		}
	}
	for _, a := range u.Vals {
		d["val/"+hex.EncodeToString(a[:4])] = ValString(st.GetValidatorByMainAddr(a))
	}
	var idx []string
	for _, v := range st.GetValidatorsForUpdate() {
		m := v.MainAddress()
		idx = append(idx, hex.EncodeToString(m[:4]))
	}
	sort.Strings(idx)
	d["valindex"] = strings.Join(idx, ",")
	if stat, err := st.GetValidatorsStat(); err == nil && stat != nil {
		b, _ := json.Marshal(stat.Dump())
		d["valstat"] = string(b)
	} else {
		d["valstat"] = fmt.Sprint("error: ", err)
	}
	if q := st.GetWithdrawQueue(); q != nil {
		var parts []string
		for _, r := range q.Records {
			b, _ := json.Marshal(r.Dump())
			parts = append(parts, string(b))
		}
		d["withdrawq"] = strings.Join(parts, ";")
	}
	var logs []string
	for _, l := range st.Logs() {
		logs = append(logs, fmt.Sprintf("%x|%x|%v|%x|%d", l.Address[:4], l.TxHash[:4], l.Topics, l.Data, l.Index))
	}
	sort.Strings(logs)
	d["logs"] = strings.Join(logs, ";")
	d["refund"] = fmt.Sprint(st.GetRefund())
	var pre []string
	for h, p := range st.Preimages() {
		pre = append(pre, fmt.Sprintf("%x=%x", h[:4], p))
	}
	sort.Strings(pre)
	d["preimages"] = strings.Join(pre, ";")
	if o.Staking {
		StakingInto(d, st, u)
	}
	return d
}

// StakingInto adds staking records and pending relationships.
func StakingInto(d Digest, st *state.StateDB, u *Universe) {
	var recs []string
	st.ForEachStakingRecord(func(dl, v common.Address, r *state.Record) error {
		var hs []string
		for _, h := range r.TxHashes {
			hs = append(hs, hex.EncodeToString(h[:4]))
		}
		recs = append(recs, fmt.Sprintf("%x>%x=%s[%s]", dl[:4], v[:4], bi(r.FinalValue), strings.Join(hs, ",")))
		return nil
	})
	sort.Strings(recs)
	d["stakingrecords-iter"] = strings.Join(recs, ";")
	// the same records through the keyed getter (does not depend on trie-key preimages)
	ds := append([]common.Address{{}}, u.Addrs...)
	for _, dl := range ds {
		for _, v := range u.Vals {
			if r := st.GetStakingRecord(dl, v); r != nil {
				var hs []string
				for _, h := range r.TxHashes {
					hs = append(hs, hex.EncodeToString(h[:4]))
				}
				d[fmt.Sprintf("stakingrec/%x>%x", dl[:4], v[:4])] = fmt.Sprintf("%s[%s]", bi(r.FinalValue), strings.Join(hs, ","))
			}
		}
	}
	var rel []string
	all := append(append([]common.Address{}, u.Addrs...), u.Vals...)
	for _, a := range all {
		if n := st.DelegatorPendingCount(a); n != 0 {
			rel = append(rel, fmt.Sprintf("dpc/%x=%d", a[:4], n))
		}
		if n := st.ValidatorPendingCount(a); n != 0 {
			rel = append(rel, fmt.Sprintf("vpc/%x=%d", a[:4], n))
		}
		for _, v := range u.Vals {
			if st.PendingRelationshipExist(a, v) {
				rel = append(rel, fmt.Sprintf("rel/%x>%x", a[:4], v[:4]))
			}
		}
	}
	d["pendingrel"] = strings.Join(rel, ";")
}

// Flushed computes roots and the trie-level dump of st on a Copy (IntermediateRoot(true) on the
// copy, as the block pipeline does), leaving st's journal and caches untouched.
func Flushed(st *state.StateDB) Digest {
	cp := st.Copy()
	return FlushedInPlace(cp)
}

// FlushedInPlace commits st itself and enumerates the three tries node by node through the
// state.Database (own enumeration keyed by trie-key hashes: independent of RawDump and of key
// preimages).
func FlushedInPlace(cp *state.StateDB) Digest {
	d := Digest{}
	r, v, s, err := cp.Commit(true)
	if err != nil {
		d["commit-error"] = err.Error()
	}
	d["root"] = r.Hex()
	d["valroot"] = v.Hex()
	d["stakingroot"] = s.Hex()
	TrieDumpInto(d, cp.Database(), r, v, s)
	return d
}

// TrieDumpInto enumerates accounts (with storage, code, delegation blob), the validator trie and
// the staking trie below the given roots.
func TrieDumpInto(d Digest, db state.Database, root, valRoot, stakingRoot common.Hash) {
	tr, err := db.OpenTrie(root)
	if err != nil {
		d["t/open-error"] = err.Error()
		return
	}
	it := trie.NewIterator(tr.NodeIterator(nil))
	for it.Next() {
		var acc state.Account
		k := "t/acct/" + hex.EncodeToString(it.Key[:6])
		if err := rlp.DecodeBytes(it.Value, &acc); err != nil {
			d[k] = "undecodable: " + err.Error()
			continue
		}
		var sb strings.Builder
		fmt.Fprintf(&sb, "nonce=%d bal=%s dbal=%s code=%x dlg=%x", acc.Nonce, bi(acc.Balance), bi(acc.DelegationBalance), acc.CodeHash, acc.DelegationsHash)
		if len(acc.CodeHash) > 0 && !bytes.Equal(acc.CodeHash, emptyCode) {
			code, err := db.ContractCode(common.BytesToHash(it.Key), common.BytesToHash(acc.CodeHash))
			if err != nil {
				fmt.Fprintf(&sb, " CODE-MISSING(%v)", err)
			} else {
				fmt.Fprintf(&sb, " codelen=%d", len(code))
			}
		}
		if len(acc.DelegationsHash) > 0 {
			blob, err := db.TrieDB().Node(common.BytesToHash(acc.DelegationsHash))
			if err != nil {
				fmt.Fprintf(&sb, " DLG-BLOB-MISSING(%v)", err)
			} else {
				fmt.Fprintf(&sb, " dlgblob=%x", blob)
			}
		}
		if acc.Root != emptyRoot && acc.Root != (common.Hash{}) {
			stt, err := db.OpenStorageTrie(common.BytesToHash(it.Key), acc.Root)
			if err != nil {
				fmt.Fprintf(&sb, " STORAGE-MISSING(%v)", err)
			} else {
				sit := trie.NewIterator(stt.NodeIterator(nil))
				for sit.Next() {
					fmt.Fprintf(&sb, " %x=%x", sit.Key[:4], sit.Value)
				}
				if sit.Err != nil {
					fmt.Fprintf(&sb, " STORAGE-ITER-ERROR(%v)", sit.Err)
				}
			}
		}
		d[k] = sb.String()
	}
	if it.Err != nil {
		d["t/acct-iter-error"] = it.Err.Error()
	}
	vt, err := db.OpenTrie(valRoot)
	if err != nil {
		d["t/val-open-error"] = err.Error()
	} else {
		vit := trie.NewIterator(vt.NodeIterator(nil))
		for vit.Next() {
			d["t/valtrie/"+hex.EncodeToString(vit.Key[:6])] = hex.EncodeToString(vit.Value)
		}
		if vit.Err != nil {
			d["t/val-iter-error"] = vit.Err.Error()
		}
	}
	st, err := db.OpenTrie(stakingRoot)
	if err != nil {
		d["t/staking-open-error"] = err.Error()
	} else {
		sit := trie.NewIterator(st.NodeIterator(nil))
		for sit.Next() {
			d["t/stakingtrie/"+hex.EncodeToString(sit.Key[:6])] = hex.EncodeToString(sit.Value)
		}
		if sit.Err != nil {
			d["t/staking-iter-error"] = sit.Err.Error()
		}
	}
}

var emptyRoot = common.HexToHash("56e81f171bcc55a6ff8345e692c0f86e5b48e01b996cadc001622fb5e363b421")
var emptyCode = common.FromHex("c5d2460186f7233c927e7db2dcc703c0e500b653ca82273b7bfad8045d85a470")

// Diff lists keys whose values differ.
func Diff(a, b Digest) []string {
	var out []string
	for k, va := range a {
		if vb, ok := b[k]; !ok {
			out = append(out, fmt.Sprintf("%s: %s -> <absent>", k, short(va)))
		} else if va != vb {
			out = append(out, fmt.Sprintf("%s: %s -> %s", k, short(va), short(vb)))
		}
	}
	for k, vb := range b {
		if _, ok := a[k]; !ok {
			out = append(out, fmt.Sprintf("%s: <absent> -> %s", k, short(vb)))
		}
	}
	sort.Strings(out)
	return out
}

func short(s string) string {
	if len(s) > 6000 {
		return s[:6000] + "…"
	}
	return s
}

// Merge copies src into dst.
func Merge(dst, src Digest) Digest {
	for k, v := range src {
		dst[k] = v
	}
	return dst
}
