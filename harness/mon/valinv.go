package mon

import (
	"fmt"
	"math/big"
	"sort"
	"strings"

	"github.com/youchainhq/go-youchain/common"
	"github.com/youchainhq/go-youchain/core/state"
	"github.com/youchainhq/go-youchain/params"
)

// ValidatorReader is what both a full StateDB and a look-back reader offer.
type ValidatorReader interface {
	GetValidatorByMainAddr(mainAddress common.Address) *state.Validator
	GetValidatorsStat() (*state.ValidatorsStat, error)
	GetValidators() *state.Validators
}

type acc struct {
	onS, onT, offS, offT *big.Int
	onC, offC            uint64
}

func newAcc() *acc {
	return &acc{new(big.Int), new(big.Int), new(big.Int), new(big.Int), 0, 0}
}

func (a *acc) add(v *state.Validator) {
	if v.Status == params.ValidatorOnline {
		a.onS.Add(a.onS, v.Stake)
		a.onT.Add(a.onT, v.Token)
		a.onC++
	} else {
		a.offS.Add(a.offS, v.Stake)
		a.offT.Add(a.offT, v.Token)
		a.offC++
	}
}

func (a *acc) cmp(what string, s *state.ValKindStat, out *[]string) {
	chk := func(name string, got, want fmt.Stringer) {
		if got.String() != want.String() {
			*out = append(*out, fmt.Sprintf("stat[%s].%s = %s, recomputed from records = %s", what, name, got, want))
		}
	}
	chk("onlineStake", s.GetOnlineStake(), a.onS)
	chk("onlineToken", s.GetOnlineToken(), a.onT)
	chk("offlineStake", s.GetOfflineStake(), a.offS)
	chk("offlineToken", s.GetOfflineToken(), a.offT)
	if s.GetCount() != a.onC {
		*out = append(*out, fmt.Sprintf("stat[%s].onlineCount = %d, recomputed = %d", what, s.GetCount(), a.onC))
	}
	if s.GetOfflineCount() != a.offC {
		*out = append(*out, fmt.Sprintf("stat[%s].offlineCount = %d, recomputed = %d", what, s.GetOfflineCount(), a.offC))
	}
}

// Violation of a C08 invariant: Class is stable, Msg has details.
type InvViolation struct{ Class, Msg string }

// CheckValidatorRecords checks the record-level invariants and statistics over the validators
// in vals (the records that currently exist).
func CheckValidatorRecords(vals []*state.Validator, stat *state.ValidatorsStat) []InvViolation {
	var out []InvViolation
	roles := map[params.ValidatorRole]*acc{params.RoleChancellor: newAcc(), params.RoleSenator: newAcc(), params.RoleHouse: newAcc()}
	kinds := map[params.ValidatorKind]*acc{params.KindValidator: newAcc(), params.KindChamber: newAcc(), params.KindHouse: newAcc()}
	for _, v := range vals {
		m := v.MainAddress()
		tok := new(big.Int).Set(v.SelfToken)
		stk := new(big.Int).Set(v.SelfStake)
		for _, d := range v.Delegations {
			tok.Add(tok, d.Token)
			stk.Add(stk, d.Stake)
			if params.YOUToStake(d.Token).Cmp(d.Stake) != 0 {
				out = append(out, InvViolation{"delegation-stake-not-token-div-unit", fmt.Sprintf("validator %x delegation from %x: Stake %v != Token %v / unit", m[:4], d.Delegator[:4], d.Stake, d.Token)})
			}
		}
		if tok.Cmp(v.Token) != 0 {
			out = append(out, InvViolation{"token-sum", fmt.Sprintf("validator %x: Token %v != SelfToken %v + sum of delegation tokens (= %v)", m[:4], v.Token, v.SelfToken, tok)})
		}
		if stk.Cmp(v.Stake) != 0 {
			out = append(out, InvViolation{"stake-sum", fmt.Sprintf("validator %x: Stake %v != SelfStake %v + sum of delegation stakes (= %v)", m[:4], v.Stake, v.SelfStake, stk)})
		}
		if params.YOUToStake(v.SelfToken).Cmp(v.SelfStake) != 0 {
			out = append(out, InvViolation{"selfstake-not-token-div-unit", fmt.Sprintf("validator %x: SelfStake %v != SelfToken %v / unit", m[:4], v.SelfStake, v.SelfToken)})
		}
		if !sort.SliceIsSorted(v.Delegations, func(i, j int) bool {
			return strings.Compare(string(v.Delegations[i].Delegator[:]), string(v.Delegations[j].Delegator[:])) < 0
		}) {
			out = append(out, InvViolation{"delegations-unsorted", fmt.Sprintf("validator %x: delegation list not sorted", m[:4])})
		}
		if a := roles[v.Role]; a != nil {
			a.add(v)
		}
		if k, ok := params.KindOfRole(v.Role); ok {
			kinds[k].add(v)
		}
		kinds[params.KindValidator].add(v)
	}
	if stat == nil {
		out = append(out, InvViolation{"stat-unavailable", "GetValidatorsStat returned nil"})
		return out
	}
	var msgs []string
	for r, a := range roles {
		a.cmp(fmt.Sprintf("role %d", r), stat.GetByRole(r), &msgs)
	}
	for k, a := range kinds {
		a.cmp(fmt.Sprintf("kind %d", k), stat.GetByKind(k), &msgs)
	}
	sort.Strings(msgs)
	if len(msgs) > 0 {
		out = append(out, InvViolation{"stat-mismatch", strings.Join(msgs, "; ")})
	}
	return out
}

func addrSet(vs []*state.Validator) string {
	var s []string
	for _, v := range vs {
		m := v.MainAddress()
		s = append(s, fmt.Sprintf("%x", m[:4]))
	}
	sort.Strings(s)
	return strings.Join(s, ",")
}

// CheckLive checks all C08 invariants on a live StateDB over the universe.
func CheckLive(st *state.StateDB, u *Universe) []InvViolation {
	var existing []*state.Validator
	for _, a := range u.Vals {
		if v := st.GetValidatorByMainAddr(a); v != nil {
			existing = append(existing, v)
		}
	}
	stat, _ := st.GetValidatorsStat()
	out := CheckValidatorRecords(existing, stat)
	idx := st.GetValidatorsForUpdate()
	if a, b := addrSet(idx), addrSet(existing); a != b {
		out = append(out, InvViolation{"index-mismatch", fmt.Sprintf("GetValidatorsForUpdate lists {%s}, existing validator records are {%s}", a, b)})
	}
	out = append(out, CheckLinks(st, u, existing)...)
	return out
}

// CheckLinks: delegator accounts and validators agree on who delegates to whom.
func CheckLinks(st *state.StateDB, u *Universe, existing []*state.Validator) []InvViolation {
	var out []InvViolation
	links := map[string]bool{} // delegator>validator as seen from the validator side
	for _, v := range existing {
		m := v.MainAddress()
		for _, d := range v.Delegations {
			links[fmt.Sprintf("%x>%x", d.Delegator[:], m[:])] = true
		}
	}
	seen := map[string]bool{}
	for _, a := range u.Addrs {
		dtos, err := st.GetDelegationsFrom(a)
		if err != nil {
			out = append(out, InvViolation{"delegation-link-broken", fmt.Sprintf("delegator %x lists a validator that does not list it back: %v", a[:4], err)})
			continue
		}
		if len(dtos) != st.GetCountOfDelegateTo(a) {
			out = append(out, InvViolation{"delegation-link-broken", fmt.Sprintf("delegator %x: GetCountOfDelegateTo=%d but %d delegations resolved", a[:4], st.GetCountOfDelegateTo(a), len(dtos))})
		}
		for _, t := range dtos {
			k := fmt.Sprintf("%x>%x", a[:], t.Validator[:])
			seen[k] = true
			if !links[k] {
				out = append(out, InvViolation{"delegation-link-broken", fmt.Sprintf("delegator %x lists validator %x, which has no delegation from it", a[:4], t.Validator[:4])})
			}
		}
	}
	for k := range links {
		if !seen[k] {
			out = append(out, InvViolation{"delegation-link-broken", fmt.Sprintf("validator side has delegation %s… but the delegator account does not list that validator", k[:8])})
		}
	}
	return out
}

// CheckReader checks the statistics/index invariants as consensus sees them through a
// (look-back) reader: GetValidators() must list exactly the records and the stat must match.
func CheckReader(rd ValidatorReader, u *Universe) []InvViolation {
	var existing []*state.Validator
	for _, a := range u.Vals {
		if v := rd.GetValidatorByMainAddr(a); v != nil {
			existing = append(existing, v)
		}
	}
	stat, _ := rd.GetValidatorsStat()
	out := CheckValidatorRecords(existing, stat)
	if a, b := addrSet(rd.GetValidators().List()), addrSet(existing); a != b {
		out = append(out, InvViolation{"index-mismatch-reader", fmt.Sprintf("GetValidators() lists {%s}, existing validator records are {%s}", a, b)})
	}
	// the positions consensus uses as voter indexes: GetIndex and GetByIndex must be inverse to each
	// other over the list, every listed validator exactly once, nothing beyond the end
	vs := rd.GetValidators()
	list := vs.List()
	seen := map[string]bool{}
	for i, v := range list {
		m := v.MainAddress()
		if seen[string(m[:])] {
			out = append(out, InvViolation{"index-positions-reader", fmt.Sprintf("validator %x is listed twice", m[:4])})
		}
		seen[string(m[:])] = true
		if idx, ok := vs.GetIndex(m); !ok || idx != i {
			out = append(out, InvViolation{"index-positions-reader", fmt.Sprintf("GetIndex(%x) = (%d,%v), the validator sits at position %d of the list", m[:4], idx, ok, i)})
		}
		if w, ok := vs.GetByIndex(i); !ok || w == nil || w.MainAddress() != m {
			out = append(out, InvViolation{"index-positions-reader", fmt.Sprintf("GetByIndex(%d) does not return the validator %x listed at that position", i, m[:4])})
		}
	}
	if _, ok := vs.GetByIndex(len(list)); ok {
		out = append(out, InvViolation{"index-positions-reader", fmt.Sprintf("GetByIndex(%d) succeeds beyond the end of a list of %d", len(list), len(list))})
	}
	if _, ok := vs.GetByIndex(-1); ok {
		out = append(out, InvViolation{"index-positions-reader", "GetByIndex(-1) succeeds"})
	}
	return out
}
