#!/bin/bash
# Runs the repository's own suite with the verif guard OFF and compares with BASELINE.json's stable_pass.
export GOFLAGS=-mod=mod GOPROXY=off GOSUMDB=off GOTOOLCHAIN=local
out=${1:-/tmp/baseline_run.json}
cd /repo && go test -json -vet=off -count=1 -timeout 25m ./... > $out 2>/dev/null
python3 - "$out" <<'PY'
import json,sys
passed=set()
for l in open(sys.argv[1]):
    try: e=json.loads(l)
    except: continue
    if e.get('Action')=='pass' and e.get('Test'):
        passed.add(e['Package']+'::'+e['Test'])
b=json.load(open('/root/.vp/BASELINE.json'))
missing=[t for t in b['stable_pass'] if t not in passed]
print("stable_pass:",len(b['stable_pass']),"passed now:",len(passed),"missing:",len(missing))
for m in missing[:40]: print("  MISSING",m)
PY
