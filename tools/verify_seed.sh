#!/bin/bash
# usage: verify_seed.sh <seed-id e.g. C13-a> [srcdir=/tmp/seeded]
# Confirms: demo passes on pristine HEAD, fails with the patch; patched tree builds and the existing
# suite has no failing package beyond the environment-caused ones that fail on the pristine tree too.
export GOFLAGS=-mod=mod GOPROXY=off GOSUMDB=off GOTOOLCHAIN=local
id=$1; src=${2:-/tmp/seeded}/$id; wt=/tmp/wt/verify-$id; out=/tmp/seedverify/$id.txt
ENVFAIL="cmd/utils cmd/you/node console p2p p2p/enode p2p/discover p2p/nat/check you youclient accounts/abi/bind"
rm -f $out; exec >$out 2>&1
git -C /repo worktree remove --force $wt 2>/dev/null; git -C /repo worktree add -q --detach $wt HEAD || exit 9
cd $wt
python3 - "$src" "$wt" <<'PY'
import json,sys,shutil,os
src,wt=sys.argv[1],sys.argv[2]
m=json.load(open(src+'/meta.json'))
for f,dst in m['demo']['files'].items():
    d=os.path.join(wt,dst)
    if os.path.isdir(d) or dst.endswith('/'): d=os.path.join(d,f)
    os.makedirs(os.path.dirname(d),exist_ok=True)
    shutil.copy(os.path.join(src,f),d)
    print("placed",f,"->",d)
open(wt+'/.demo_run','w').write(m['demo']['run'])
PY
run=$(cat .demo_run); echo "RUN: $run"
echo "== pristine + demo"; (eval "$run") >/tmp/seedverify/$id.pristine.log 2>&1; p=$?; echo "exit=$p"
git apply $src/patch.diff || { echo "RESULT patch does not apply"; exit 8; }
echo "== patched + demo"; (eval "$run") >/tmp/seedverify/$id.patched.log 2>&1; q=$?; echo "exit=$q"
# remove demo files, run suite
git clean -fdq -e .demo_run; git status --short | head
echo "== build"; go build ./... ; b=$?; echo "exit=$b"
echo "== suite"; go test -vet=off -count=1 -timeout 25m $(go list ./... | grep -v p2p/nat/check) 2>&1 | grep -E "^(FAIL|---|ok|panic)" | grep -E "^FAIL" | sort -u > /tmp/seedverify/$id.suitefail.txt
bad=""
while read -r _ pkg _; do
  rel=${pkg#github.com/youchainhq/go-youchain/}
  skip=0; for e in $ENVFAIL; do [ "$rel" = "$e" ] && skip=1; done
  [ $skip = 0 ] && [ -n "$rel" ] && bad="$bad $rel"
done < /tmp/seedverify/$id.suitefail.txt
echo "unexpected failing packages:$bad"
if [ -n "$bad" ]; then
  echo "== rerun failing packages once (flake check)"
  still=""
  for pk in $bad; do go test -vet=off -count=1 ./$pk >/dev/null 2>&1 || go test -vet=off -count=1 ./$pk >/dev/null 2>&1 || still="$still $pk"; done
  echo "still failing:$still"; bad=$still
fi
cd /; git -C /repo worktree remove --force $wt
if [ $p = 0 ] && [ $q != 0 ] && [ $b = 0 ] && [ -z "$bad" ]; then echo "RESULT OK"; else echo "RESULT BAD pristine=$p patched=$q build=$b bad=$bad"; fi
