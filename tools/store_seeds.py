#!/usr/bin/env python3
"""Copies verified seeded changes from /tmp/seeded into /verif/seeded/<id>/ (patch.diff, demonstration,
meta.json extended with what the main session ran and which checks catch the change)."""
import json, os, shutil, sys
catch = json.load(open('/verif/tools/seed_catch.json'))
for sid in sorted(os.listdir('/tmp/seeded')):
    src = '/tmp/seeded/' + sid
    vf = '/tmp/seedverify/%s.txt' % sid
    if not os.path.exists(vf):
        continue
    txt = open(vf).read()
    if 'RESULT OK' not in txt:
        print('skip (not verified OK):', sid); continue
    if sid not in catch:
        print('skip (no catch record yet):', sid); continue
    dst = '/verif/seeded/' + sid
    os.makedirs(dst, exist_ok=True)
    meta = json.load(open(src + '/meta.json'))
    shutil.copy(src + '/patch.diff', dst + '/patch.diff')
    for f in meta['demo']['files']:
        shutil.copy(os.path.join(src, f), os.path.join(dst, f))
    meta['confirmed_by_main_session'] = {
        'how': 'tools/verify_seed.sh %s: fresh worktree of /repo HEAD; demonstration placed and run (must pass); patch applied with git apply; demonstration run again (must fail); demonstration removed; go build ./... ; go test -vet=off -count=1 -timeout 25m ./... (no failing package beyond the environment-caused ones: cmd/utils cmd/you/node console p2p p2p/enode you youclient, and the load-flaky p2p/discover, accounts/abi/bind)' % sid,
        'result': 'demonstration passes on HEAD, fails with the patch; build ok; existing suite passes',
    }
    meta['caught_by'] = {
        'checks': catch[sid]['checks'],
        'classes': catch[sid]['classes'],
        'how': 'git -C /repo worktree add --detach <wt> HEAD; git -C <wt> apply patch.diff; VERIF_REPO=<wt> ./check <Cnn> quick  -> exit 1 with these classes (none of which appears on the unchanged tree)',
    }
    json.dump(meta, open(dst + '/meta.json', 'w'), indent=1)
    print('stored', sid)
