#!/usr/bin/env python3
"""Regenerates /verif/MANIFEST.json from the table below (kept valid at all times)."""
import json, subprocess, os
ROOT = os.path.dirname(os.path.dirname(os.path.abspath(__file__)))
checks = json.load(open(os.path.join(ROOT, 'tools', 'checks.json')))
props = [json.loads(l)['id'] for l in open(os.path.join(ROOT, 'properties.jsonl'))]
hooks_commits = []
try:
    out = subprocess.check_output(['git', '-C', '/repo', 'log', '--format=%H %s'], text=True)
    for l in out.splitlines():
        h, s = l.split(' ', 1)
        if s.startswith('verif hook:'):
            hooks_commits.append(h)
except Exception:
    pass
m = {
 "version": 1,
 "setup_cmd": "sh /verif/setup.sh",
 "hooks": {
  "guard": "verif",
  "enable": "go build -tags verif (the harness module /verif/harness replaces github.com/youchainhq/go-youchain with /repo, so every check compiles /repo's working tree with the tag on)",
  "baseline_off_cmd": "cd /repo && GOFLAGS=-mod=mod GOPROXY=off GOSUMDB=off go test -json -vet=off -count=1 -timeout 25m ./...",
  "source_commits": list(reversed(hooks_commits)),
  "add_only": True,
 },
 "engines": [
  {"name": "vcheck", "path": "harness/cmd/vcheck", "serves_properties": [c['id'] for c in checks['claimed']],
   "kind_free_text": "orchestrator: rebuilds bin/vchild[-race|-asan|-intpool] from /repo's working tree, one child process per batch with the input logged before execution, watchdog, death classification, known-finding matching, evidence writer"},
  {"name": "vchild", "path": "harness/cmd/vchild", "serves_properties": [c['id'] for c in checks['claimed']],
   "kind_free_text": "worker linking the real go-youchain packages plus the monitors/oracles/reference models under harness/{model,mon,env,forge,props}"},
 ],
 "checks": [],
 "notes": checks.get('notes', ''),
 "not_applicable": [],
}
claimed = set()
for c in checks['claimed']:
    claimed.add(c['id'])
    m['checks'].append({
        "property_id": c['id'],
        "quick_cmd": "./check %s quick" % c['id'],
        "thorough_cmd": "./check %s thorough" % c['id'],
        "evidence_file": "/verif/evidence/%s.json" % c['id'],
        "replay_cmd_template": "./check --replay {path}",
        "engine": "vcheck",
        "level_claimed": {"category": c.get('category', 'exploration'), "text": c['text'], "design_ref": c.get('design_ref', 'DESIGN.md §5 ' + c['id'])},
        "level_note": c['note'],
        "technique": c['technique'],
    })
for p in props:
    if p not in claimed:
        m['not_applicable'].append({"property_id": p, "reason": checks['unclaimed'].get(p, "no runtime monitor built for this property in this revision (planned in DESIGN.md §5; not claimed until its check exists and is silent on the unchanged tree)")})
json.dump(m, open(os.path.join(ROOT, 'MANIFEST.json'), 'w'), indent=1)
print("claimed:", sorted(claimed))
