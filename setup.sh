#!/bin/sh
# Offline setup: build the orchestrator and warm the Go build cache with the repository packages
# (each check builds its own small child binary from /repo's working tree when it runs).
cd "$(dirname "$0")" || exit 1
export GOFLAGS=-mod=mod GOPROXY=off GOSUMDB=off GOTOOLCHAIN=local CGO_ENABLED=1
mkdir -p bin evidence replays work
cd harness || exit 1
go build -o ../bin/vcheck ./cmd/vcheck || exit 1
# warm the cache (plain and race); failures here are not fatal - every check rebuilds anyway
go build -tags verif ./env/ ./forge/ ./mon/ ./stategen/ ./model/ ./kit/ 2>/dev/null
go build -race -gcflags=all=-d=checkptr=0 -tags verif ./env/ ./forge/ ./mon/ ./stategen/ 2>/dev/null
echo setup ok
