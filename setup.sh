#!/bin/sh
# Offline setup: build the orchestrator and warm the build cache of every child variant.
cd "$(dirname "$0")" || exit 1
export GOFLAGS=-mod=mod GOPROXY=off GOSUMDB=off GOTOOLCHAIN=local CGO_ENABLED=1
mkdir -p bin evidence replays work
cd harness || exit 1
go build -o ../bin/vcheck ./cmd/vcheck || exit 1
go build -tags verif -o ../bin/vchild ./cmd/vchild || exit 1
go build -race -gcflags=all=-d=checkptr=0 -tags verif -o ../bin/vchild-race ./cmd/vchild || exit 1
echo setup ok
